#!/usr/bin/env bash
# Confirm a seeded mutation independently in a scratch worktree:
#   suite passes with the patch, demo fails with the patch, demo passes without it.
# usage: confirm_seed.sh <mutation dir with patch.diff, demo.rs, README.md> [crate]
set -u
D="$(realpath "$1")"
CRATE="${2:-$(grep -oE '[a-z0-9-]+/tests/demo_mutation\.rs' "$D/README.md" | head -1 | cut -d/ -f1)}"
[ -n "$CRATE" ] || { echo "cannot determine crate"; exit 2; }
WT=/tmp/wt-confirm-$$
git -C /repo worktree add -q "$WT" HEAD || exit 2
trap 'git -C /repo worktree remove --force "$WT" >/dev/null 2>&1' EXIT
cd "$WT"
FEAT=""
grep -q 'zeroize' "$D/demo.rs" && grep -q '^zeroize' "$CRATE/Cargo.toml" && FEAT="--features zeroize"
# a demonstration that needs a build without debug assertions says so in its README
grep -q -- '--release' "$D/README.md" && FEAT="$FEAT --release"
for f in block-padding alloc; do
  grep -q -- "--features $f" "$D/README.md" && grep -q "^$f" "$CRATE/Cargo.toml" && FEAT="$FEAT --features $f"
done
cp "$D/demo.rs" "$CRATE/tests/demo_mutation.rs"
cargo test -p "$(grep -m1 '^name' $CRATE/Cargo.toml | cut -d'"' -f2)" --test demo_mutation --offline $FEAT >/tmp/confirm-clean.log 2>&1; clean=$?
rm "$CRATE/tests/demo_mutation.rs"
git apply "$D/patch.diff" || { echo "patch does not apply"; exit 2; }
cargo test --workspace --offline >/tmp/confirm-suite.log 2>&1; suite=$?
cp "$D/demo.rs" "$CRATE/tests/demo_mutation.rs"
cargo test -p "$(grep -m1 '^name' $CRATE/Cargo.toml | cut -d'"' -f2)" --test demo_mutation --offline $FEAT >/tmp/confirm-mut.log 2>&1; mut=$?
echo "crate=$CRATE features='$FEAT' demo_clean_exit=$clean suite_with_mutation_exit=$suite demo_with_mutation_exit=$mut"
if [ $clean -eq 0 ] && [ $suite -eq 0 ] && [ $mut -ne 0 ]; then echo CONFIRMED; exit 0; else echo NOT-CONFIRMED; for f in /tmp/confirm-clean.log /tmp/confirm-suite.log /tmp/confirm-mut.log; do tail -n 5 "$f"; done; exit 1; fi
