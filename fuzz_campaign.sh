#!/usr/bin/env bash
# Coverage-guided campaign (libFuzzer, ASan, debug assertions) for one property.
#   fuzz_campaign.sh <ID> <seed> <workdir>
# The fuzz target's input is the property's tape; its oracle is the same check function the
# proptest engine runs.  Fixed work (-runs per job), wall-clock cap = inconclusive, never a verdict.
# Leaves <workdir>/corpus and <workdir>/artifacts for vp-run to evaluate in-process.
set -u
ID="$1"; SEED="$2"; WORK="$3"
ROOT="$(cd "$(dirname "${BASH_SOURCE[0]}")" && pwd)"
FZ="$ROOT/harness/fuzz"
export CARGO_NET_OFFLINE=true
JOBS="${VP_FUZZ_JOBS:-16}"
RUNS="${VP_FUZZ_RUNS:-150000}"
CAP="${VP_FUZZ_CAP_S:-900}"
( cd "$FZ" && flock "$ROOT/.lock-fuzz" cargo +nightly fuzz build >"$ROOT/.build-fuzz.log" 2>&1 ) || { echo "fuzz_campaign: build failed (see .build-fuzz.log)"; exit 2; }
BIN="$FZ/target/x86_64-unknown-linux-gnu/release/fz_prop"
[ -x "$BIN" ] || { echo "fuzz_campaign: no binary"; exit 2; }
LEN="$("$ROOT/.target/release/vp-run" "$ID" --tape-len)" || exit 2
rm -rf "$WORK"; mkdir -p "$WORK/corpus" "$WORK/artifacts" "$WORK/logs"
for d in "$ROOT/fuzz-seeds/$ID" "$ROOT/corpus/$ID"; do
  [ -d "$d" ] && for f in "$d"/*.bin; do [ -f "$f" ] && cp "$f" "$WORK/corpus/$(basename "$d")-$(basename "$f")"; done
done
S=$(( (SEED % 2000000000) + 1 ))   # libFuzzer: 0 means random
cd "$WORK/logs"
VP_PROP="$ID" VP_ROOT="$ROOT" ASAN_OPTIONS=detect_leaks=0 timeout "$CAP" "$BIN" "$WORK/corpus" \
  -runs="$RUNS" -seed="$S" -max_len="$LEN" -len_control=0 -jobs="$JOBS" -workers="$JOBS" \
  -artifact_prefix="$WORK/artifacts/" -timeout=30 -rss_limit_mb=4096 -print_final_stats=1 >"$WORK/logs/driver.log" 2>&1
rc=$?
execs=$(grep -h 'stat::number_of_executed_units' "$WORK"/logs/fuzz-*.log 2>/dev/null | awk '{s+=$2} END {print s+0}')
echo "fuzz_campaign: $ID jobs=$JOBS runs/job=$RUNS seed=$S executed=$execs corpus=$(ls "$WORK/corpus" | wc -l) artifacts=$(ls "$WORK/artifacts" | wc -l) rc=$rc"
echo "$execs" >"$WORK/executed"
[ $rc -eq 124 ] && { echo "fuzz_campaign: wall-clock cap hit (inconclusive)"; exit 3; }
exit 0
