#!/usr/bin/env python3
"""Merge the per-build evidence parts of one property into a single evidence file."""
import json, sys
out, parts = sys.argv[1], sys.argv[2:]
docs = [json.load(open(p)) for p in parts]
base = docs[0]
cov = base["coverage"]
for part, d in zip(parts[1:], docs[1:]):
    label = part.split("/")[-1].split(".")[1]
    c = d["coverage"]
    cov["evaluations"] += c["evaluations"]
    cov["distinct_nontrivial"] += c["distinct_nontrivial"]
    cov["excluded_known"] = cov.get("excluded_known", 0) + c.get("excluded_known", 0)
    for k, v in c.get("classes", {}).items():
        cov.setdefault("classes", {})[k] = cov.get("classes", {}).get(k, 0) + v
    for k, v in c.get("engines", {}).items():
        cov.setdefault("engines", {})[k + ("" if label.startswith("longcall") else "(" + label + " build)") + (" [unoptimised build]" if label == "longcalldev" else "")] = v
    cov["samples"] = (cov.get("samples", []) + c.get("samples", []))[:8]
    cov["zeroize_build"] = cov.get("zeroize_build", False) or c.get("zeroize_build", False)
    cov["builds"] = cov.get("builds", [base["coverage"].get("build", "default")]) + [c.get("build", label)]
    if "long_call_bytes" in c:
        cov["long_call_bytes"] = cov.get("long_call_bytes", 0) + c["long_call_bytes"]
    base["wall_s"] += d["wall_s"]
    base["violations"] += d["violations"]
cov["distinct_nontrivial_note"] = "sum over the parts: a part is a (build of the mode crates) and the same decoded case on another build is a different evaluation; within a part the count is of distinct hashes of decoded values"
cov["parts"] = [p.split("/")[-1] for p in parts]
json.dump(base, open(out, "w"), indent=2)
open(out, "a").write("\n")
