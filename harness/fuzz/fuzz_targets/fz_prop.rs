//! libFuzzer target: the input *is* the tape of the property named by VP_PROP (default C07).
//! The semantic oracle is the same check function the proptest engine runs; a violation
//! aborts so that libFuzzer keeps the input as a crash artifact, which `vp-run` then
//! re-evaluates in-process (verdict, replay file and evidence come from there).
#![no_main]
use libfuzzer_sys::fuzz_target;
use std::sync::OnceLock;
use vp_core::checks::{self, PropDef};
use vp_core::common::Ctx;
use vp_core::engine::{CaseOutcome, eval_case, install_panic_hook};

struct State {
    ctx: Ctx,
    prop: PropDef,
}

static STATE: OnceLock<State> = OnceLock::new();

fn state() -> &'static State {
    STATE.get_or_init(|| {
        // libfuzzer-sys installs an aborting panic hook; replace it so that catch_unwind works
        install_panic_hook();
        let id = std::env::var("VP_PROP").unwrap_or_else(|_| "C07".into());
        let root = std::env::var("VP_ROOT").unwrap_or_else(|_| "/verif".into());
        let prop = checks::prop(&id).unwrap_or_else(|| {
            eprintln!("fz_prop: unknown property {id}");
            std::process::exit(2)
        });
        let mut ctx = Ctx::new();
        let known = vp_core::known::load(std::path::Path::new(&root));
        let _ = vp_core::known::activate(&mut ctx, &prop, &known);
        State { ctx, prop }
    })
}

fuzz_target!(|data: &[u8]| {
    let st = state();
    let mut tape = data.to_vec();
    tape.resize(st.prop.tape_len, 0);
    match eval_case(&st.ctx, &st.prop, &tape, false) {
        CaseOutcome::Pass { .. } => {}
        CaseOutcome::Fail { v, .. } => {
            eprintln!("fz_prop: VIOLATION candidate {}: {}", v.sig, v.msg);
            std::process::abort();
        }
        CaseOutcome::Internal(m) => {
            eprintln!("fz_prop: harness-internal error (not a verdict): {m}");
            std::process::exit(2);
        }
    }
});
