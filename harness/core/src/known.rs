//! KNOWN_FINDINGS.txt: parsing and activation of listed findings through their probes.

use crate::checks::PropDef;
use crate::common::Ctx;
use std::path::Path;

#[derive(Debug, Clone)]
pub struct KnownEntry {
    pub fixed: bool,
    pub property: String,
    pub sig: String,
    pub text: String,
}

pub fn load(root: &Path) -> Vec<KnownEntry> {
    let p = root.join("KNOWN_FINDINGS.txt");
    let Ok(s) = std::fs::read_to_string(&p) else {
        return Vec::new();
    };
    let mut v = Vec::new();
    for line in s.lines() {
        let line = line.trim();
        if line.is_empty() || line.starts_with('#') {
            continue;
        }
        let (fixed, rest) = if let Some(r) = line.strip_prefix("known:") {
            (false, r.trim())
        } else if let Some(r) = line.strip_prefix("fixed:") {
            (true, r.trim())
        } else {
            continue;
        };
        let mut property = String::new();
        let mut sig = String::new();
        let mut text = Vec::new();
        for tok in rest.split_whitespace() {
            if let Some(p) = tok.strip_prefix("property=") {
                property = p.to_string();
            } else if let Some(s) = tok.strip_prefix("sig=") {
                sig = s.to_string();
            } else {
                text.push(tok);
            }
        }
        v.push(KnownEntry {
            fixed,
            property,
            sig,
            text: text.join(" "),
        });
    }
    v
}

pub struct Reproduced {
    pub sig: String,
    pub listed_text: String,
    pub probe_text: String,
}

/// Run the property's deterministic probes. A finding that is listed as `known:` and still
/// reproduces is activated in `ctx` (its signature is excluded from the generated search) and
/// returned so the caller can print the KNOWN-FINDING line. `Err` = a probe panicked.
pub fn activate(ctx: &mut Ctx, p: &PropDef, known: &[KnownEntry]) -> Result<Vec<Reproduced>, String> {
    let mut out = Vec::new();
    for (sig, probe) in p.probes {
        let listed = known.iter().find(|k| !k.fixed && k.property == p.id && k.sig == *sig);
        let res = std::panic::catch_unwind(std::panic::AssertUnwindSafe(|| probe(ctx)));
        match res {
            Ok(Some(text)) => {
                if let Some(k) = listed {
                    ctx.active_known.push((*sig).to_string());
                    out.push(Reproduced {
                        sig: (*sig).to_string(),
                        listed_text: k.text.clone(),
                        probe_text: text,
                    });
                }
                // not listed: the region stays in the search and will be reported as a violation
            }
            Ok(None) => {}
            Err(_) => match crate::engine::take_foreign_panic() {
                // The code under test panicked inside the probe: the finding does not reproduce as
                // listed, so nothing is excluded and the generated search judges that region itself.
                Some(text) => eprintln!("vp-run: probe {sig} of {}: code under test panicked ({text}); finding not reproduced as listed, its region is searched", p.id),
                None => return Err(format!("known-finding probe {sig} panicked inside the harness")),
            },
        }
    }
    Ok(out)
}
