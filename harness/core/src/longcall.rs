//! Long single calls (megabytes in one call), run by `vp-run --long-call-probe` in a process of
//! its own and on a thread with a 1 MiB stack.
//!
//! The generated search keeps single calls below ≈ 80 KB, so a defect whose cost grows with the
//! length of *one call* (a recursion with one frame per block, a scratch buffer sized by the
//! message) cannot show there; and when it does show it ends the process with a signal, which
//! cannot be turned into a replayable case from inside. Here the cases are few and fixed by
//! (property, seed), the oracle is the reference model, and the driver script treats the death
//! of this process as the violation (`./check` writes the replay file, which re-runs the probe).

use crate::common::*;
use crate::model::{self, KsModel};
use crate::{ensure, ensure_eq_bytes};
use vp_base::obj::*;
use vp_base::tape;

pub struct LongStats {
    pub cases: usize,
    pub bytes: usize,
    pub samples: Vec<String>,
}

pub const PROPS: [&str; 5] = ["C02", "C03", "C04", "C05", "C06"];

fn pick<'a>(ctx: &'a Ctx, name: &str) -> Option<&'a Suite> {
    ctx.suites().find(|s| s.info.name == name)
}

/// (configuration, bytes in the single call)
fn plan(thorough: bool, scale_pct: usize) -> Vec<(&'static str, usize)> {
    let mut v = vec![("Aes128", 3 << 20), ("Toy16x3", 1 << 20), ("Toy8x2", 1 << 19), ("Toy1x3", 1 << 18)];
    if thorough {
        v.extend([("Aes128", 12 << 20), ("Toy16x1", 4 << 20), ("Toy32x16", 2 << 20), ("Toy255x2", 1 << 20), ("BeltBlock", 2 << 20), ("Magma", 1 << 20)]);
    }
    // (the unoptimised build is an order of magnitude slower and needs far less data to show a deep recursion)
    v.into_iter().map(|(n, len)| (n, (len / 100 * scale_pct).max(4096))).collect()
}

pub fn run(ctx: &Ctx, id: &str, seed: u64, thorough: bool, scale_pct: usize) -> Result<LongStats, Violation> {
    let mut st = LongStats { cases: 0, bytes: 0, samples: Vec::new() };
    for (k, (name, nominal)) in plan(thorough, scale_pct).into_iter().enumerate() {
        let Some(suite) = pick(ctx, name) else { continue };
        let bs = suite.info.bs;
        let s32 = (seed as u32).wrapping_mul(0x9E37_79B9) ^ (k as u32) << 8;
        let key = tape::bytes(3, s32 ^ 0x11, suite.info.key_len);
        let c = (suite.keyed)(&key);
        // whole blocks plus a ragged tail where the interface takes bytes
        let whole = nominal - nominal % bs;
        let ragged = whole + if bs > 1 { 1 + (seed as usize) % (bs - 1) } else { 1 };
        let data_w = tape::bytes(3, s32 ^ 0x22, whole);
        let data_r = tape::bytes(3, s32 ^ 0x33, ragged.max(1));
        let note = |st: &mut LongStats, what: String, n: usize| {
            st.cases += 1;
            st.bytes += n;
            if st.samples.len() < 8 {
                st.samples.push(format!("{what}: one call of {n} bytes"));
            }
        };
        match id {
            "C02" | "C03" => {
                let modes: &[Mode] = if id == "C02" { &[Mode::Cbc, Mode::Pcbc, Mode::Ige] } else { &[Mode::Cfb, Mode::Cfb8, Mode::Ofb] };
                for &mode in modes {
                    for dir in [Direction::Enc, Direction::Dec] {
                        let Some(f) = suite.block_mode(mode, dir) else { continue };
                        let unit = f.unit();
                        // CFB-8 works a byte at a time: a shorter call keeps the probe quick
                        let data: &[u8] = if unit == 1 { &data_r[..data_r.len().min((1 << 19) / 100 * scale_pct.min(100))] } else { &data_w };
                        let iv = tape::bytes(3, s32 ^ 0x44, f.iv_len());
                        let ty = f.type_name();
                        let (want, want_state) = model::block_mode(c.as_ref(), mode, dir, &iv, data);
                        for kind in [CallKind::Blocks, CallKind::BlocksB2b] {
                            let mut obj = f.make(Ctor::New, &key, &iv).expect("harness: ctor");
                            let mut out = vec![0xA5u8; data.len()];
                            let res = obj.process(kind, data, &mut out, &mut Sched::new([k as u8, 1, 2, 3, 4, kind as u8]));
                            ensure!(res.is_ok(), format!("{id}/long-call-rejected/{ty}"), "{kind:?} of {} bytes failed", data.len());
                            ensure_eq_bytes!(out, want, format!("{id}/long-call/{ty}"), "{kind:?} of {} bytes in one call", data.len());
                            if let Some(s) = obj.iv_state() {
                                ensure_eq_bytes!(s, want_state, format!("{id}/long-call-state/{ty}"), "chaining value after one call of {} bytes", data.len());
                            }
                            note(&mut st, format!("{ty} {kind:?}"), data.len());
                        }
                        // one-shot byte interface with a ragged tail (CFB, CFB-8)
                        if matches!(mode, Mode::Cfb | Mode::Cfb8) {
                            let d: &[u8] = if unit == 1 { data } else { &data_r };
                            let (want, _) = model::block_mode(c.as_ref(), mode, dir, &iv, d);
                            let obj = f.make(Ctor::New, &key, &iv).expect("harness: ctor");
                            let mut out = vec![0x5Au8; d.len()];
                            if let Some(res) = obj.oneshot(OneShot::Async(Form::B2b), d, &mut out) {
                                ensure!(res.is_ok(), format!("{id}/long-call-rejected/{ty}"), "one-shot of {} bytes failed", d.len());
                                ensure_eq_bytes!(out, want[..d.len()], format!("{id}/long-call/{ty}"), "one-shot of {} bytes", d.len());
                                note(&mut st, format!("{ty} one-shot"), d.len());
                            }
                        }
                    }
                }
                if id == "C03" {
                    let iv = tape::bytes(3, s32 ^ 0x55, bs);
                    for dir in [Direction::Enc, Direction::Dec] {
                        let Some(f) = suite.buf(dir) else { continue };
                        let (want, _) = model::block_mode(c.as_ref(), Mode::Cfb, dir, &iv, &data_r);
                        // once from a block boundary, once after a few bytes
                        for head in [0usize, (bs / 2).max(1).min(data_r.len())] {
                            let mut b = f.make(Ctor::New, &key, &iv).expect("harness: ctor");
                            let out = run_buf(b.as_mut(), &data_r, &[head, data_r.len() - head]);
                            ensure_eq_bytes!(out, want[..data_r.len()], format!("C03/long-call/{}", f.type_name()), "{head} bytes, then {} bytes in one call", data_r.len() - head);
                            note(&mut st, f.type_name(), data_r.len() - head);
                        }
                    }
                    if let Some(f) = suite.stream(StreamKind::Ofb) {
                        let m = KsModel::new(c.as_ref(), StreamKind::Ofb, &iv);
                        let mut s = f.make(Ctor::New, &key, &iv).expect("harness: ctor");
                        let out = run_stream(s.as_mut(), &data_r, &[3.min(data_r.len()), data_r.len() - 3.min(data_r.len())], &[ApplyKind::InPlace, ApplyKind::B2b], (1, 7)).map_err(|v| with_sig("C03", &f.type_name(), v))?;
                        ensure_eq_bytes!(out, m.apply(0, &data_r), format!("C03/long-call/{}", f.type_name()), "{} bytes in one call", data_r.len());
                        note(&mut st, f.type_name(), data_r.len());
                    }
                }
            }
            "C04" | "C06" => {
                for f in suite.streams.iter() {
                    let kind = f.kind();
                    let wanted = match kind {
                        StreamKind::Ctr(..) => id == "C04",
                        StreamKind::Belt => id == "C06",
                        StreamKind::Ofb => false,
                    };
                    if !wanted {
                        continue;
                    }
                    // counter field just below a wrap, so that the long call crosses it
                    let mut iv = tape::bytes(3, s32 ^ 0x66, bs);
                    if let StreamKind::Ctr(w, be) = kind {
                        let wb = (w / 8) as usize;
                        for i in 0..wb {
                            let pos = if be { bs - 1 - i } else { i };
                            iv[pos] = if i == 0 { 0xF0 } else { 0xFF };
                        }
                    }
                    let m = KsModel::new(c.as_ref(), kind, &iv);
                    let mut s = f.make(Ctor::New, &key, &iv).expect("harness: ctor");
                    let head = 5.min(data_r.len());
                    let out = run_stream(s.as_mut(), &data_r, &[head, data_r.len() - head], &[ApplyKind::Inout, ApplyKind::InPlace], (3, 9)).map_err(|v| with_sig(id, &f.type_name(), v))?;
                    ensure_eq_bytes!(out, m.apply(0, &data_r), format!("{id}/long-call/{}", f.type_name()), "{head} bytes, then {} bytes in one call", data_r.len() - head);
                    note(&mut st, f.type_name(), data_r.len() - head);
                }
            }
            "C05" => {
                let iv = tape::bytes(3, s32 ^ 0x77, bs);
                for f in suite.cts.iter() {
                    let v = f.variant();
                    for (d, form) in [(&data_r, Form::InPlace), (&data_w, Form::B2b)] {
                        let want = model::cts_enc(c.as_ref(), v, &iv, d);
                        let mut out = vec![0x3Cu8; d.len()];
                        let res = f.make(Ctor::New, &key, &iv).expect("harness: ctor").encrypt(form, d, &mut out);
                        ensure!(res.is_ok(), format!("C05/long-call-rejected/{}", f.type_name()), "encrypting {} bytes failed", d.len());
                        ensure_eq_bytes!(out, want, format!("C05/long-call/{}", f.type_name()), "encrypting {} bytes", d.len());
                        let mut back = vec![0xC3u8; d.len()];
                        let res = f.make(Ctor::New, &key, &iv).expect("harness: ctor").decrypt(form, &want, &mut back);
                        ensure!(res.is_ok(), format!("C05/long-call-rejected/{}", f.type_name()), "decrypting {} bytes failed", d.len());
                        ensure_eq_bytes!(back, d[..], format!("C05/long-call/{}", f.type_name()), "decrypting {} bytes", d.len());
                        note(&mut st, f.type_name(), 2 * d.len());
                    }
                }
            }
            _ => {}
        }
    }
    Ok(st)
}
