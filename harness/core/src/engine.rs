//! Evaluate one tape: decode, run the property's check, classify panics.

use crate::checks::PropDef;
use crate::common::{Ctx, Report, Violation};
use std::cell::RefCell;
use std::panic::{AssertUnwindSafe, catch_unwind};
use vp_base::tape::Tape;

thread_local! {
    static LAST_PANIC: RefCell<Option<(String, String)>> = const { RefCell::new(None) };
}

/// Install a panic hook that records (location, message) per thread and prints nothing.
/// Must be called before any case is evaluated (and again inside libFuzzer targets, whose
/// runtime installs an aborting hook).
pub fn install_panic_hook() {
    std::panic::set_hook(Box::new(|info| {
        let loc = info
            .location()
            .map(|l| format!("{}:{}", l.file(), l.line()))
            .unwrap_or_else(|| "<unknown>".into());
        let msg = if let Some(s) = info.payload().downcast_ref::<&str>() {
            s.to_string()
        } else if let Some(s) = info.payload().downcast_ref::<String>() {
            s.clone()
        } else {
            "<non-string panic>".into()
        };
        LAST_PANIC.with(|p| *p.borrow_mut() = Some((loc, msg)));
    }));
}

pub enum CaseOutcome {
    Pass { report: Report, hash: u64 },
    Fail { v: Violation, report: Report },
    /// a bug in the harness itself (exit 2, never a verdict)
    Internal(String),
}

fn is_harness_location(loc: &str, msg: &str) -> bool {
    loc.contains("/verif/harness/") || loc.starts_with("base/src") || loc.starts_with("core/src") || loc.starts_with("run/src")
        || loc.starts_with("reg") || msg.starts_with("harness:")
}

/// After a caught panic outside `eval_case` (known-finding probes): `Some(text)` if the panic
/// came from the code under test, `None` if it came from the harness itself.
pub fn take_foreign_panic() -> Option<String> {
    let (loc, msg) = LAST_PANIC
        .with(|p| p.borrow_mut().take())
        .unwrap_or_else(|| ("<unknown>".into(), "harness: <no message>".into()));
    if is_harness_location(&loc, &msg) { None } else { Some(format!("{loc}: {msg}")) }
}

fn short_loc(loc: &str) -> String {
    // keep the crate directory and file: ".../cipher-0.5.0-pre.8/src/stream/wrapper.rs:83"
    let parts: Vec<&str> = loc.rsplitn(4, '/').collect();
    let mut v: Vec<&str> = parts.into_iter().take(3).collect();
    v.reverse();
    v.join("/")
}

pub fn eval_case(ctx: &Ctx, p: &PropDef, tape: &[u8], want_desc: bool) -> CaseOutcome {
    let mut report = Report::new(want_desc);
    let mut t = Tape::new(tape);
    LAST_PANIC.with(|p| *p.borrow_mut() = None);
    let res = catch_unwind(AssertUnwindSafe(|| (p.check)(ctx, &mut t, &mut report)));
    // never leave the call log running across cases
    let _ = vp_base::toy::log_take();
    match res {
        Ok(Ok(())) => CaseOutcome::Pass {
            hash: t.canon_hash(),
            report,
        },
        Ok(Err(v)) => CaseOutcome::Fail { v, report },
        Err(_) => {
            let (loc, msg) = LAST_PANIC
                .with(|p| p.borrow_mut().take())
                .unwrap_or_else(|| ("<unknown>".into(), "<no message>".into()));
            if is_harness_location(&loc, &msg) {
                CaseOutcome::Internal(format!("harness panic at {loc}: {msg}"))
            } else {
                CaseOutcome::Fail {
                    v: Violation {
                        sig: format!("{}/panic/{}", p.id, short_loc(&loc)),
                        msg: format!("code under test panicked at {loc}: {msg}"),
                    },
                    report,
                }
            }
        }
    }
}
