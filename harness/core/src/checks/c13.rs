//! C13 — bad lengths are rejected without side effects; no operation panics.
//!
//! Oracle: `Err` iff the stated contract is violated (only the categories the property
//! lists); on `Err` the caller's buffers are unchanged; nothing panics (every panic raised by
//! the code under test is turned into a violation by the engine; overflow checks and debug
//! assertions are on).

use crate::common::*;
use crate::{ensure, ensure_eq_bytes, pick};
use vp_base::obj::*;
use vp_base::tape::{self, Tape};

pub const RULE: &str = "tape -> (CTS length gate, 6 variants x enc/dec x 3 entry points, L in 0..b-1 and >= b | b2b calls with unequal lengths on block \
modes, async one-shots, stream wrappers, CTS | padded decryption with L mod b != 0 | key/IV slice lengths 0..3b through new_from_slices / \
inner_iv_slice_init / new_from_slice | omnibus op programs over every type with lengths 0..many blocks incl. zero-length and sub-block calls, \
far seeks, exported states re-imported); oracle = Err iff contract violated, buffers untouched on Err, no panic; non-trivial = a rejected call \
with non-zero buffers, or an omnibus program touching >= 3 entry points; distinct by hash of decoded values";

pub fn check(ctx: &Ctx, t: &mut Tape<'_>, r: &mut Report) -> CheckResult {
    match t.pick(&[0u8, 1, 2, 3, 4, 4, 4]) {
        0 => cts_gate(ctx, t, r),
        1 => unequal_b2b(ctx, t, r),
        2 => padded_dec(ctx, t, r),
        3 => ctor_lengths(ctx, t, r),
        _ => omnibus(ctx, t, r),
    }
}

fn nonzero_prefill(t: &mut Tape<'_>) -> (u8, u32) {
    let (k, s) = gen_prefill_kind(t);
    (if k == 0 { 3 } else { k }, s)
}

fn cts_gate(ctx: &Ctx, t: &mut Tape<'_>, r: &mut Report) -> CheckResult {
    let suite = pick!(ctx, t, r, |s| s.has_cts());
    let v = CtsVariant::ALL[t.idx(6)];
    let f = suite.cts(v).unwrap();
    let bs = suite.info.bs;
    let key = gen_key(t, suite);
    let iv = gen_iv(t, bs);
    let short = t.chance(160);
    let len = if short { t.idx(bs) } else { bs + t.idx(2 * bs + 1) };
    let data = tape::bytes(3, t.u32() | 1, len);
    let decrypt = t.chance(128);
    let form = t.pick(&[Form::InPlace, Form::B2b, Form::Inout]);
    let pre = nonzero_prefill(t);
    let ty = f.type_name();
    r.label("cts-gate");
    r.nontrivial = short && len > 0;
    r.label_if(short, "shorter-than-block");
    r.d(|| format!("{ty} {} {form:?} len={len} (block {bs}) key={} iv={}", if decrypt { "dec" } else { "enc" }, tape::hex_short(&key), tape::hex_short(&iv)));
    let obj = f.make(Ctor::New, &key, &iv).expect("harness: ctor");
    let mut out = prefill(pre.0, pre.1, &data);
    let before = if form == Form::InPlace { data.clone() } else { out.clone() };
    let res = if decrypt { obj.decrypt(form, &data, &mut out) } else { obj.encrypt(form, &data, &mut out) };
    if short {
        ensure!(res.is_err(), format!("C13/short-message-accepted/{ty}"), "a {len}-byte message (block size {bs}) was accepted");
        ensure_eq_bytes!(out, before, format!("C13/buffer-modified-on-error/{ty}"), "rejected {len}-byte message, {form:?}");
    } else {
        ensure!(res.is_ok(), format!("C13/valid-length-rejected/{ty}"), "a {len}-byte message (block size {bs}) was rejected");
    }
    Ok(())
}

fn unequal_b2b(ctx: &Ctx, t: &mut Tape<'_>, r: &mut Report) -> CheckResult {
    let suite = pick!(ctx, t, r, |_| true);
    let bs = suite.info.bs;
    let key = gen_key(t, suite);
    let which = t.idx(4);
    let pre = nonzero_prefill(t);
    let a = t.idx(6);
    let mut b = t.idx(6);
    if a == b {
        b = a + 1;
    }
    let seed = t.u32() | 1;
    r.label("unequal-b2b");
    r.nontrivial = true;
    match which {
        0 => {
            let modes = modes_for(suite);
            let (mode, dir) = modes[t.idx(modes.len())];
            let f = suite.block_mode(mode, dir).unwrap();
            let unit = f.unit();
            let iv = gen_iv(t, f.iv_len());
            let kind = t.pick(&[CallKind::BlocksB2b, CallKind::BlocksInout, CallKind::Backend]);
            let ty = f.type_name();
            r.d(|| format!("{ty} {kind:?} in={a} blocks out={b} blocks"));
            let inp = tape::bytes(3, seed, a * unit);
            let mut out = prefill(pre.0, pre.1, &vec![0u8; b * unit]);
            let before = out.clone();
            let mut obj = f.make(Ctor::New, &key, &iv).expect("harness: ctor");
            let st0 = obj.iv_state();
            let res = obj.process(kind, &inp, &mut out, &mut Sched::new([1, 2, 3, 1, 2, 3]));
            ensure!(res.is_err(), format!("C13/unequal-b2b-accepted/{ty}"), "{kind:?} with {a} input and {b} output blocks succeeded");
            ensure_eq_bytes!(out, before, format!("C13/buffer-modified-on-error/{ty}"), "{kind:?} {a} vs {b} blocks");
            ensure!(obj.iv_state() == st0, format!("C13/state-modified-on-error/{ty}"), "chaining state changed by a rejected call");
        }
        1 => {
            let mode = t.pick(&[Mode::Cfb, Mode::Cfb8]);
            let dir = t.pick(&[Direction::Enc, Direction::Dec]);
            let f = suite.block_mode(mode, dir).unwrap();
            let iv = gen_iv(t, bs);
            let ty = f.type_name();
            let (la, lb) = (a * bs + t.idx(bs), b * bs + t.idx(bs));
            let lb = if la == lb { lb + 1 } else { lb };
            r.d(|| format!("async {ty} b2b in={la} out={lb}"));
            let inp = tape::bytes(3, seed, la);
            let mut out = prefill(pre.0, pre.1, &vec![0u8; lb]);
            let before = out.clone();
            let obj = f.make(Ctor::New, &key, &iv).expect("harness: ctor");
            let res = obj.oneshot(OneShot::Async(Form::B2b), &inp, &mut out).ok_or_else(|| Violation { sig: format!("C13/no-async/{ty}"), msg: "type no longer implements AsyncStreamCipher".into() })?;
            ensure!(res.is_err(), format!("C13/unequal-b2b-accepted/{ty}"), "async b2b with {la} input and {lb} output bytes succeeded");
            ensure_eq_bytes!(out, before, format!("C13/buffer-modified-on-error/{ty}"), "async b2b {la} vs {lb}");
        }
        2 => {
            let f = &suite.streams[t.idx(suite.streams.len())];
            let iv = gen_iv(t, bs);
            let ty = f.type_name();
            let (la, lb) = (a * bs + t.idx(bs), b * bs + t.idx(bs));
            let lb = if la == lb { lb + 1 } else { lb };
            let warm = t.idx(bs + 1);
            r.d(|| format!("{ty} apply_keystream_b2b in={la} out={lb} after {warm} bytes"));
            let mut obj = f.make(Ctor::New, &key, &iv).expect("harness: ctor");
            let mut twin = f.make(Ctor::New, &key, &iv).expect("harness: ctor");
            let w = vec![0u8; warm];
            let (mut w1, mut w2) = (w.clone(), w.clone());
            let _ = obj.try_apply(ApplyKind::Inout, &w, &mut w1);
            let _ = twin.try_apply(ApplyKind::Inout, &w, &mut w2);
            let inp = tape::bytes(3, seed, la);
            let mut out = prefill(pre.0, pre.1, &vec![0u8; lb]);
            let before = out.clone();
            let res = obj.try_apply(ApplyKind::B2b, &inp, &mut out);
            ensure!(res.is_err(), format!("C13/unequal-b2b-accepted/{ty}"), "apply_keystream_b2b with {la} input and {lb} output bytes succeeded");
            ensure_eq_bytes!(out, before, format!("C13/buffer-modified-on-error/{ty}"), "apply_keystream_b2b {la} vs {lb}");
            // the position is unchanged: both instances continue identically
            let tail = tape::bytes(3, seed ^ 0xAB, bs + 2);
            let (mut t1, mut t2) = (vec![0u8; tail.len()], vec![0u8; tail.len()]);
            let _ = obj.try_apply(ApplyKind::Inout, &tail, &mut t1);
            let _ = twin.try_apply(ApplyKind::Inout, &tail, &mut t2);
            ensure_eq_bytes!(t1, t2, format!("C13/state-modified-on-error/{ty}"), "keystream position changed by a rejected call");
        }
        _ => {
            if suite.cts.is_empty() {
                return Ok(());
            }
            let v = CtsVariant::ALL[t.idx(6)];
            let f = suite.cts(v).unwrap();
            let iv = gen_iv(t, bs);
            let ty = f.type_name();
            let (la, lb) = ((a + 1) * bs + t.idx(bs), (b + 1) * bs + t.idx(bs));
            let lb = if la == lb { lb + 1 } else { lb };
            let decrypt = t.chance(128);
            r.d(|| format!("{ty} {}_b2b in={la} out={lb}", if decrypt { "decrypt" } else { "encrypt" }));
            let inp = tape::bytes(3, seed, la);
            let mut out = prefill(pre.0, pre.1, &vec![0u8; lb]);
            let before = out.clone();
            let obj = f.make(Ctor::New, &key, &iv).expect("harness: ctor");
            let res = if decrypt { obj.decrypt(Form::B2b, &inp, &mut out) } else { obj.encrypt(Form::B2b, &inp, &mut out) };
            ensure!(res.is_err(), format!("C13/unequal-b2b-accepted/{ty}"), "b2b with {la} input and {lb} output bytes succeeded");
            ensure_eq_bytes!(out, before, format!("C13/buffer-modified-on-error/{ty}"), "cts b2b {la} vs {lb}");
        }
    }
    Ok(())
}

fn padded_dec(ctx: &Ctx, t: &mut Tape<'_>, r: &mut Report) -> CheckResult {
    let mode = t.pick(&[Mode::Cbc, Mode::Pcbc, Mode::Ige, Mode::Cfb, Mode::Ofb]);
    let suite = pick!(ctx, t, r, |s| s.bs > 1 && (s.has_dec || !mode.needs_dec(Direction::Dec)));
    let f = suite.block_mode(mode, Direction::Dec).unwrap();
    let unit = f.unit();
    let key = gen_key(t, suite);
    let iv = gen_iv(t, f.iv_len());
    let k = t.idx(5);
    let len = k * unit + 1 + t.idx(unit - 1);
    let pad = t.pick(&[Pad::Pkcs7, Pad::Iso7816, Pad::AnsiX923, Pad::NoPadding, Pad::ZeroPadding]);
    let form = t.pick(&[Form::InPlace, Form::B2b, Form::Inout, Form::Vec]);
    let pre = nonzero_prefill(t);
    let data = tape::bytes(3, t.u32() | 1, len);
    let ty = f.type_name();
    r.label("padded-dec-bad-length");
    r.nontrivial = true;
    r.d(|| format!("{ty} decrypt_padded {pad:?} {form:?} len={len} (block {unit})"));
    let obj = f.make(Ctor::New, &key, &iv).expect("harness: ctor");
    let mut out = prefill(pre.0, pre.1, &data);
    let before = if form == Form::InPlace { data.clone() } else { out.clone() };
    let res = obj.oneshot(OneShot::Padded(pad, form), &data, &mut out).expect("harness: padded offered");
    ensure!(res.is_err(), format!("C13/padded-bad-length-accepted/{ty}"), "decrypt_padded of {len} bytes with {unit}-byte blocks succeeded");
    ensure_eq_bytes!(out, before, format!("C13/buffer-modified-on-error/{ty}"), "decrypt_padded {pad:?} {form:?} of {len} bytes");
    Ok(())
}

fn ctor_lengths(ctx: &Ctx, t: &mut Tape<'_>, r: &mut Report) -> CheckResult {
    let suite = pick!(ctx, t, r, |_| true);
    let bs = suite.info.bs;
    let klen_ok = suite.info.key_len;
    let family = t.idx(4);
    let how = t.pick(&[Ctor::NewFromSlices, Ctor::InnerSlice]);
    // lengths: right with probability ~1/4 each, otherwise anything in 0..3*len
    let kl = match t.byte() {
        0..=95 => klen_ok,
        96..=127 => klen_ok.saturating_sub(1),
        128..=159 => klen_ok + 1,
        x => (x as usize * (3 * klen_ok + 1)) >> 8,
    };
    let ivsel = t.byte();
    let ivraw = t.idx(3 * bs + 1);
    let key = tape::bytes(3, 0xC13, kl);
    r.label("ctor-lengths");
    let (ty, iv_ok_len, res_ok): (String, usize, bool);
    let pick_iv = |ok: usize| -> usize {
        match ivsel {
            0..=95 => ok,
            96..=119 => ok.saturating_sub(1),
            120..=143 => ok + 1,
            144..=167 => ok / 2,
            168..=191 => 2 * ok,
            _ => ivraw,
        }
    };
    match family {
        0 => {
            let modes = modes_for(suite);
            let (mode, dir) = modes[t.idx(modes.len())];
            let f = suite.block_mode(mode, dir).unwrap();
            iv_ok_len = f.iv_len();
            let il = pick_iv(iv_ok_len);
            let iv = tape::bytes(3, 0x1C13, il);
            ty = f.type_name();
            res_ok = f.make(how, &key, &iv).is_ok();
            let want = kl == klen_ok && il == iv_ok_len;
            r.d(|| format!("{ty} {how:?} key len {kl} (want {klen_ok}) iv len {il} (want {iv_ok_len})"));
            r.nontrivial = !want;
            ensure!(res_ok == want, format!("C13/ctor-length-verdict/{ty}"), "{how:?} with key length {kl} (correct {klen_ok}) and IV length {il} (correct {iv_ok_len}) returned {}", if res_ok { "Ok" } else { "Err" });
        }
        1 => {
            let f = &suite.buf_cfb[t.idx(suite.buf_cfb.len())];
            iv_ok_len = bs;
            let il = pick_iv(iv_ok_len);
            let iv = tape::bytes(3, 0x1C13, il);
            ty = f.type_name();
            res_ok = f.make(how, &key, &iv).is_ok();
            let want = kl == klen_ok && il == iv_ok_len;
            r.d(|| format!("{ty} {how:?} key len {kl} iv len {il}"));
            r.nontrivial = !want;
            ensure!(res_ok == want, format!("C13/ctor-length-verdict/{ty}"), "{how:?} with key length {kl} (correct {klen_ok}) and IV length {il} (correct {iv_ok_len}) returned {}", if res_ok { "Ok" } else { "Err" });
        }
        2 => {
            let f = &suite.streams[t.idx(suite.streams.len())];
            iv_ok_len = bs;
            let il = pick_iv(iv_ok_len);
            let iv = tape::bytes(3, 0x1C13, il);
            let core = t.chance(128);
            ty = if core { f.core_type_name() } else { f.type_name() };
            res_ok = if core { f.make_core(how, &key, &iv).is_ok() } else { f.make(how, &key, &iv).is_ok() };
            let want = kl == klen_ok && il == iv_ok_len;
            r.d(|| format!("{ty} {how:?} key len {kl} iv len {il}"));
            r.nontrivial = !want;
            ensure!(res_ok == want, format!("C13/ctor-length-verdict/{ty}"), "{how:?} with key length {kl} (correct {klen_ok}) and IV length {il} (correct {iv_ok_len}) returned {}", if res_ok { "Ok" } else { "Err" });
        }
        _ => {
            if suite.cts.is_empty() {
                return Ok(());
            }
            let v = CtsVariant::ALL[t.idx(6)];
            let f = suite.cts(v).unwrap();
            iv_ok_len = bs;
            // the ECB variants take no IV: only the key length matters
            let il = if v.is_cbc() { pick_iv(iv_ok_len) } else { bs };
            let iv = tape::bytes(3, 0x1C13, il);
            ty = f.type_name();
            res_ok = f.make(how, &key, &iv).is_ok();
            let want = kl == klen_ok && il == iv_ok_len;
            r.d(|| format!("{ty} {how:?} key len {kl} iv len {il}"));
            r.nontrivial = !want;
            ensure!(res_ok == want, format!("C13/ctor-length-verdict/{ty}"), "{how:?} with key length {kl} (correct {klen_ok}) and IV length {il} (correct {iv_ok_len}) returned {}", if res_ok { "Ok" } else { "Err" });
        }
    }
    Ok(())
}

/// Arbitrary op programs over every type; the only oracle is "no panic" (raised by the engine)
/// and length preservation.
fn omnibus(ctx: &Ctx, t: &mut Tape<'_>, r: &mut Report) -> CheckResult {
    let suite = pick!(ctx, t, r, |_| true);
    let bs = suite.info.bs;
    let par = suite.info.par;
    let key = gen_key(t, suite);
    let family = t.idx(5);
    let nops = 3 + t.idx(6);
    let mut entry_points = std::collections::BTreeSet::new();
    let mut zero_len = false;
    let mut sub_block = false;
    r.label("omnibus");
    match family {
        0 => {
            let modes = modes_for(suite);
            let (mode, dir) = modes[t.idx(modes.len())];
            let f = suite.block_mode(mode, dir).unwrap();
            let unit = f.unit();
            let iv = gen_iv(t, f.iv_len());
            let mut obj = f.make(ctor_pick(t), &key, &iv).map_err(|_| Violation { sig: format!("C13/ctor-rejected/{}", f.type_name()), msg: "correct lengths rejected".into() })?;
            r.d(|| format!("omnibus {} {nops} ops", f.type_name()));
            for i in 0..nops {
                let op = t.byte();
                let n = gen_nblocks(t, par, 20);
                let kind = t.pick(&CALL_KIND_TABLE);
                let mut sb = [0u8; 6];
                for b in sb.iter_mut() {
                    *b = t.byte();
                }
                zero_len |= n == 0;
                match op {
                    0..=159 => {
                        let data = tape::bytes(3, i as u32 + 1, n * unit);
                        let mut out = vec![0x5Au8; data.len()];
                        entry_points.insert(format!("{kind:?}"));
                        let res = obj.process(kind, &data, &mut out, &mut Sched::new(sb));
                        ensure!(res.is_ok(), format!("C13/equal-length-call-rejected/{}", f.type_name()), "{kind:?} on {n} blocks");
                    }
                    160..=199 => {
                        entry_points.insert("iv_state+reimport".into());
                        if let Some(s) = obj.iv_state() {
                            obj = f.make(Ctor::InnerSlice, &key, &s).map_err(|_| Violation { sig: format!("C13/state-rejected/{}", f.type_name()), msg: "exported state rejected".into() })?;
                        }
                    }
                    200..=219 => {
                        entry_points.insert("clone".into());
                        if let Some(c) = obj.clone_box() {
                            obj = c;
                        }
                    }
                    _ => {
                        entry_points.insert("debug".into());
                        let _ = obj.debug();
                    }
                }
            }
            // finish with a consuming one-shot
            let len = gen_msg_len(t, unit.max(bs), 3);
            sub_block |= len % unit.max(1) != 0 || len < bs;
            let data = tape::bytes(3, 77, len);
            let pad = t.pick(&[Pad::Pkcs7, Pad::Iso7816, Pad::AnsiX923, Pad::ZeroPadding]);
            let mut out = vec![0u8; len + unit];
            entry_points.insert("oneshot".into());
            if dir == Direction::Enc {
                let res = obj.oneshot(OneShot::Padded(pad, Form::B2b), &data, &mut out).expect("harness: padded offered");
                ensure!(res.is_ok(), format!("C13/padded-enc-rejected/{}", f.type_name()), "{pad:?} with one spare block of room failed for {len} bytes");
            } else {
                let whole = &data[..len - len % unit];
                let mut o2 = vec![0u8; whole.len()];
                let _ = obj.oneshot(OneShot::Padded(pad, Form::B2b), whole, &mut o2);
            }
        }
        1 => {
            let dir = t.pick(&[Direction::Enc, Direction::Dec]);
            let f = suite.buf(dir).unwrap();
            let iv = gen_iv(t, bs);
            let mut obj = f.make(ctor_pick(t), &key, &iv).map_err(|_| Violation { sig: format!("C13/ctor-rejected/{}", f.type_name()), msg: "correct lengths rejected".into() })?;
            r.d(|| format!("omnibus {} {nops} ops", f.type_name()));
            for i in 0..nops {
                let op = t.byte();
                let len = gen_msg_len(t, bs, 4);
                zero_len |= len == 0;
                sub_block |= len > 0 && len < bs;
                match op {
                    0..=179 => {
                        entry_points.insert("process".into());
                        let mut data = tape::bytes(3, i as u32 + 1, len);
                        obj.process(&mut data);
                        ensure!(data.len() == len, "C13/length", "length changed");
                    }
                    180..=219 => {
                        entry_points.insert("get_state/from_state".into());
                        let (b, p) = obj.get_state();
                        obj = f.from_state(&key, &b, p);
                    }
                    _ => {
                        entry_points.insert("clone".into());
                        if let Some(c) = obj.clone_box() {
                            obj = c;
                        }
                    }
                }
            }
        }
        2 | 3 => {
            let f = &suite.streams[t.idx(suite.streams.len())];
            let iv = gen_iv(t, bs);
            let mut obj = f.make(ctor_pick(t), &key, &iv).map_err(|_| Violation { sig: format!("C13/ctor-rejected/{}", f.type_name()), msg: "correct lengths rejected".into() })?;
            r.d(|| format!("omnibus {} {nops} ops", f.type_name()));
            let w = f.kind().width();
            for i in 0..nops {
                let op = t.byte();
                let len = gen_msg_len(t, bs, 4);
                let ak = ApplyKind::ALL[t.idx(3)];
                let a = ((t.u32() as u128) << 64) | ((t.u32() as u128) << 32) | t.u32() as u128;
                let tyb = t.byte();
                zero_len |= len == 0;
                sub_block |= len > 0 && len < bs;
                match op {
                    0..=119 => {
                        entry_points.insert(format!("{ak:?}"));
                        let data = tape::bytes(3, i as u32 + 1, len);
                        let mut out = vec![0u8; len];
                        // near the end of a keystream an error is the documented answer; never a panic
                        let _ = obj.try_apply(ak, &data, &mut out);
                    }
                    120..=189 => {
                        entry_points.insert("try_seek".into());
                        // any non-negative position of any magnitude: Ok or Err, never a panic
                        let shift = (tyb as u32) % 128;
                        let p = if w.is_some() { a.rotate_left(shift) >> ((tyb as u32 / 2) % 128) } else { 0 };
                        let tys = seek_types_for(p);
                        let nt = tys[(op as usize) % tys.len()];
                        let _ = obj.try_seek(nt, p);
                    }
                    190..=229 => {
                        entry_points.insert("try_current_pos".into());
                        let nt = NumTy::ALL[(tyb as usize * 5) >> 8];
                        let _ = obj.try_current_pos(nt);
                        let _ = obj.core_remaining();
                    }
                    _ => {
                        entry_points.insert("clone+debug".into());
                        let _ = obj.debug();
                        if let Some(c) = obj.clone_box() {
                            obj = c;
                        }
                    }
                }
            }
        }
        _ => {
            if suite.cts.is_empty() {
                return Ok(());
            }
            let v = CtsVariant::ALL[t.idx(6)];
            let f = suite.cts(v).unwrap();
            let iv = gen_iv(t, bs);
            r.d(|| format!("omnibus {} {nops} ops", f.type_name()));
            for i in 0..nops {
                let len = gen_msg_len(t, bs, 5);
                let form = t.pick(&[Form::InPlace, Form::B2b, Form::Inout]);
                let decrypt = t.chance(128);
                zero_len |= len == 0;
                sub_block |= len > 0 && len < bs;
                entry_points.insert(format!("{form:?}{decrypt}"));
                let data = tape::bytes(3, i as u32 + 1, len);
                let mut out = vec![0u8; len];
                let obj = f.make(ctor_pick(t), &key, &iv).map_err(|_| Violation { sig: format!("C13/ctor-rejected/{}", f.type_name()), msg: "correct lengths rejected".into() })?;
                let res = if decrypt { obj.decrypt(form, &data, &mut out) } else { obj.encrypt(form, &data, &mut out) };
                ensure!(res.is_ok() == (len >= bs), format!("C13/cts-length-verdict/{}", f.type_name()), "len {len} with block size {bs} -> {res:?}");
            }
        }
    }
    r.nontrivial = entry_points.len() >= 3;
    r.label_if(zero_len, "zero-length-call");
    r.label_if(sub_block, "sub-block-call");
    Ok(())
}
