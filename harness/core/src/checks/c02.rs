//! C02 — CBC, PCBC and IGE compute exactly their defining recurrences, both directions.
//!
//! Oracle: reference model (output) + the model's chaining value (state) after *every*
//! call of a generated feeding schedule. Decryptors are fed arbitrary bytes.

use crate::common::*;
use crate::model;
use crate::{ensure, ensure_eq_bytes, pick};
use vp_base::obj::*;
use vp_base::tape::{self, Tape};

pub const RULE: &str = "tape -> (mode in CBC/PCBC/IGE, direction, cipher config, ctor, key, IV, n<=40 arbitrary blocks, \
composition into <=5 calls x 8 call kinds incl. backend-level schedules, dirty output); non-trivial = n>=2 blocks; \
distinct by hash of all decoded values";

pub fn check(ctx: &Ctx, t: &mut Tape<'_>, r: &mut Report) -> CheckResult {
    let mode = t.pick(&[Mode::Cbc, Mode::Pcbc, Mode::Ige]);
    let dir = t.pick(&[Direction::Enc, Direction::Dec]);
    let suite = pick!(ctx, t, r, |s| dir == Direction::Enc || s.has_dec);
    let f = suite.block_mode(mode, dir).expect("harness: mode registered");
    let how = ctor_pick(t);
    let key = gen_key(t, suite);
    let iv = gen_iv(t, f.iv_len());
    let bs = suite.info.bs;
    let par = suite.info.par;
    let n = gen_nblocks(t, par, 40);
    let data = tape::gen_bytes(t, n * bs);
    let pre = gen_prefill_kind(t);
    let pieces = gen_pieces(t, n, 5, par);
    r.d(|| {
        format!(
            "{} ctor={:?} key={} iv={} n={} data={} prefill={} pieces=[{}]",
            f.type_name(),
            how,
            tape::hex_short(&key),
            tape::hex_short(&iv),
            n,
            tape::hex_short(&data),
            pre.0,
            describe_pieces(&pieces)
        )
    });
    r.nontrivial = n >= 2;
    r.label_if(n == 0, "n=0");
    r.label_if(n > par && par > 1, "n>par");
    r.label_if(par > 1 && n % par != 0 && n > par, "n%par!=0");
    r.label_if(pieces.len() >= 3, "pieces>=3");
    r.label_if(pieces.iter().any(|p| p.kind == CallKind::Backend && p.blocks > 0), "backend-sched");
    r.label_if(!suite.info.is_toy, "real-cipher");
    r.label_if(bs != 16, "bs!=16");
    r.label_if(mode == Mode::Cbc && dir == Direction::Dec, "cbc-dec");

    let c = (suite.keyed)(&key);
    let mut obj = f.make(how, &key, &iv).map_err(|_| Violation {
        sig: format!("C02/ctor-rejected/{}", f.type_name()),
        msg: format!("{:?} with correct key/IV lengths was rejected", how),
    })?;
    let ty = f.type_name();
    let s0 = obj.iv_state();
    if let Some(s0) = &s0 {
        ensure_eq_bytes!(s0, iv, format!("C02/initial-state/{ty}"), "iv_state() of a fresh instance is not the IV");
    }
    let run = run_pieces(obj.as_mut(), bs, &data, &pieces, pre).map_err(|v| Violation {
        sig: format!("C02/{}/{ty}", v.sig),
        msg: v.msg,
    })?;
    r.d(|| format!("trace={}", run.trace));
    // model, piece by piece
    let mut chain = iv.clone();
    let mut off = 0;
    for (i, p) in pieces.iter().enumerate() {
        let len = p.blocks * bs;
        let (mo, mc) = model::block_mode(c.as_ref(), mode, dir, &chain, &data[off..off + len]);
        ensure_eq_bytes!(
            run.out[off..off + len],
            mo,
            format!("C02/output/{ty}"),
            "piece {i} ({:?}, blocks {}..{}) differs from the recurrence",
            p.kind,
            off / bs,
            (off + len) / bs
        );
        chain = mc;
        if let Some(st) = &run.states[i] {
            ensure_eq_bytes!(
                st,
                chain,
                format!("C02/state/{ty}"),
                "iv_state() after piece {i} ({} blocks in total) is not the chaining value",
                (off + len) / bs
            );
        }
        off += len;
    }
    ensure!(s0.is_some(), format!("C02/no-ivstate/{ty}"), "type does not report an IV state");
    Ok(())
}
