//! C07 — output is independent of block batching and of the cipher's parallel width.
//!
//! Oracle (metamorphic + differential): a generated schedule must give the same output and
//! leave the same chaining state as (a) the one-block-at-a-time run of the same type and
//! (b) the same mode over the width-1 toy cipher with the same key.

use crate::common::*;
use crate::{ensure, ensure_eq_bytes, pick};
use vp_base::obj::*;
use vp_base::tape::{self, Tape};

pub const RULE: &str = "tape -> sub-check (block modes | stream cores | CTS long messages), cipher config (width 1..16), key, IV, \
n<=48 blocks, composition into <=6 calls x call kinds incl. backend-level block/par/tail schedules; oracle = single-step run of \
the same type and the width-1 twin; non-trivial = n>par with par>1, or >=3 pieces, or >=2 distinct call kinds; distinct by hash of decoded values";

pub fn check(ctx: &Ctx, t: &mut Tape<'_>, r: &mut Report) -> CheckResult {
    match t.pick(&[0u8, 0, 1, 2]) {
        0 => block_modes(ctx, t, r),
        1 => stream_cores(ctx, t, r),
        _ => cts_long(ctx, t, r),
    }
}

fn continue_blocks(obj: &mut dyn BlockModeObj, unit: usize, suffix: &[u8]) -> Vec<u8> {
    let mut out = vec![0u8; suffix.len()];
    let mut sched = Sched::new([0; 6]);
    for (i, o) in suffix.chunks(unit).zip(out.chunks_mut(unit)) {
        let _ = obj.process(CallKind::Block, i, o, &mut sched);
    }
    out
}

fn block_modes(ctx: &Ctx, t: &mut Tape<'_>, r: &mut Report) -> CheckResult {
    let suite = pick!(ctx, t, r, |_| true);
    let modes = modes_for(suite);
    let (mode, dir) = modes[t.idx(modes.len())];
    let f = suite.block_mode(mode, dir).unwrap();
    let key = gen_key(t, suite);
    let iv = gen_iv(t, f.iv_len());
    let unit = f.unit();
    let par = suite.info.par;
    let n = gen_nblocks(t, par, 48);
    let data = tape::gen_bytes(t, n * unit);
    let pre = gen_prefill_kind(t);
    let pieces = gen_pieces(t, n, 6, par);
    let ty = f.type_name();
    r.d(|| {
        format!(
            "block-mode {ty} key={} iv={} n={n} data={} prefill={} pieces=[{}]",
            tape::hex_short(&key),
            tape::hex_short(&iv),
            tape::hex_short(&data),
            pre.0,
            describe_pieces(&pieces)
        )
    });
    let kinds: std::collections::BTreeSet<u8> = pieces.iter().filter(|p| p.blocks > 0).map(|p| p.kind as u8).collect();
    r.nontrivial = (par > 1 && n > par) || pieces.len() >= 3 || kinds.len() >= 2;
    r.label("block-mode");
    r.label_if(par > 1 && n > par, "n>par");
    r.label_if(par > 1 && n > par && n % par != 0, "n%par!=0");
    r.label_if(pieces.len() >= 3, "pieces>=3");
    r.label_if(kinds.len() >= 2, "kinds>=2");
    r.label_if(pieces.iter().any(|p| p.blocks == 0), "empty-call");

    let mut a = f.make(Ctor::New, &key, &iv).expect("harness: ctor");
    let mut b = f.make(Ctor::New, &key, &iv).expect("harness: ctor");
    let run = run_pieces(a.as_mut(), unit, &data, &pieces, pre).map_err(|v| Violation {
        sig: format!("C07/{}/{ty}", v.sig),
        msg: v.msg,
    })?;
    r.d(|| format!("trace={}", run.trace));
    r.label_if(run.trace.contains('p'), "par-call");
    r.label_if(run.trace.contains('t'), "tail-call");
    let single = continue_blocks(b.as_mut(), unit, &data);
    ensure_eq_bytes!(run.out, single, format!("C07/output-vs-single-step/{ty}"), "schedule [{}] trace {}", describe_pieces(&pieces), run.trace);
    // state: IvState where offered, and behaviour on a further suffix always
    let sa = a.iv_state();
    let sb = b.iv_state();
    ensure!(sa == sb, format!("C07/state-vs-single-step/{ty}"), "iv_state differs after schedule [{}]: {:?} vs {:?}",
        describe_pieces(&pieces), sa.as_deref().map(tape::hex_short), sb.as_deref().map(tape::hex_short));
    let suffix = tape::bytes(3, 0xC07 ^ n as u32, 3 * unit);
    let oa = continue_blocks(a.as_mut(), unit, &suffix);
    let ob = continue_blocks(b.as_mut(), unit, &suffix);
    ensure_eq_bytes!(oa, ob, format!("C07/continuation-vs-single-step/{ty}"), "three further blocks after schedule [{}]", describe_pieces(&pieces));

    // width differential
    if let Some(w1) = ctx.width1_of(suite) {
        if w1.info.par != suite.info.par {
            r.label("width-differential");
            let f1 = w1.block_mode(mode, dir).unwrap();
            let mut c = f1.make(Ctor::New, &key, &iv).expect("harness: ctor");
            let mut out1 = continue_blocks(c.as_mut(), unit, &data);
            ensure_eq_bytes!(run.out, out1, format!("C07/output-vs-width1/{ty}"), "width {} vs width 1, schedule [{}]", par, describe_pieces(&pieces));
            out1 = continue_blocks(c.as_mut(), unit, &suffix);
            ensure_eq_bytes!(oa, out1, format!("C07/continuation-vs-width1/{ty}"), "width {} vs width 1", par);
        }
    }
    Ok(())
}

fn core_kinds(t: &mut Tape<'_>, n: usize, par: usize) -> Vec<(usize, CoreKind, [u8; 6])> {
    let m = 1 + t.idx(6);
    let mut left = n;
    let mut v = Vec::new();
    for i in 0..m {
        let share = t.byte() as usize;
        let kind = CoreKind::ALL[t.idx(CoreKind::ALL.len())];
        let mut sched = [0u8; 6];
        for b in sched.iter_mut() {
            *b = t.byte();
        }
        let blocks = if i + 1 == m {
            left
        } else {
            match share {
                0 => left,
                1..=31 => 0,
                32..=95 => 1,
                96..=127 => par,
                128..=159 => par + 1,
                _ => ((share - 160) * (left + 1)) / 96,
            }
        }
        .min(left);
        left -= blocks;
        v.push((blocks, kind, sched));
    }
    v
}

fn run_core(obj: &mut dyn StreamCoreObj, bs: usize, data: &[u8], pieces: &[(usize, CoreKind, [u8; 6])], pre: (u8, u32)) -> (Vec<u8>, String) {
    let mut out = Vec::new();
    let mut off = 0;
    let mut trace = String::new();
    for (blocks, kind, sched) in pieces {
        let len = blocks * bs;
        let inp = &data[off..off + len];
        let mut o = prefill(pre.0, pre.1.wrapping_add(off as u32), inp);
        let mut s = Sched::new(*sched);
        obj.process(*kind, inp, &mut o, &mut s);
        if !s.trace.is_empty() {
            trace.push_str(&s.trace);
            trace.push('|');
        }
        out.extend_from_slice(&o);
        off += len;
    }
    (out, trace)
}

fn stream_cores(ctx: &Ctx, t: &mut Tape<'_>, r: &mut Report) -> CheckResult {
    let suite = pick!(ctx, t, r, |_| true);
    let f = &suite.streams[t.idx(suite.streams.len())];
    let key = gen_key(t, suite);
    let bs = suite.info.bs;
    let c = (suite.keyed)(&key);
    let iv = gen_stream_iv(t, f.kind(), bs, c.as_ref(), suite.info.has_dec);
    let par = suite.info.par;
    let n = gen_nblocks(t, par, 48);
    let data = tape::gen_bytes(t, n * bs);
    let pre = gen_prefill_kind(t);
    let pieces = core_kinds(t, n, par);
    let ty = f.core_type_name();
    r.d(|| {
        format!(
            "stream-core {ty} key={} iv={} n={n} data={} prefill={} pieces={:?}",
            tape::hex_short(&key),
            tape::hex_short(&iv),
            tape::hex_short(&data),
            pre.0,
            pieces.iter().map(|p| (p.0, p.1)).collect::<Vec<_>>()
        )
    });
    let kinds: std::collections::BTreeSet<u8> = pieces.iter().filter(|p| p.0 > 0).map(|p| p.1 as u8).collect();
    r.nontrivial = (par > 1 && n > par) || pieces.len() >= 3 || kinds.len() >= 2;
    r.label("stream-core");
    r.label_if(par > 1 && n > par, "n>par");
    r.label_if(par > 1 && n > par && n % par != 0, "n%par!=0");
    r.label_if(kinds.len() >= 2, "kinds>=2");

    let mut a = f.make_core(Ctor::New, &key, &iv).expect("harness: ctor");
    let mut b = f.make_core(Ctor::New, &key, &iv).expect("harness: ctor");
    let (oa, trace) = run_core(a.as_mut(), bs, &data, &pieces, pre);
    r.d(|| format!("trace={trace}"));
    r.label_if(trace.contains('p'), "par-call");
    let single: Vec<(usize, CoreKind, [u8; 6])> = (0..n).map(|_| (1, CoreKind::ApplyBlockInout, [0; 6])).collect();
    let (ob, _) = run_core(b.as_mut(), bs, &data, &single, (0, 0));
    ensure_eq_bytes!(oa, ob, format!("C07/output-vs-single-step/{ty}"), "pieces {:?} trace {trace}", pieces.iter().map(|p| (p.0, p.1)).collect::<Vec<_>>());
    ensure!(a.iv_state() == b.iv_state(), format!("C07/state-vs-single-step/{ty}"), "iv_state differs after the schedule");
    ensure!(a.get_block_pos() == b.get_block_pos(), format!("C07/blockpos-vs-single-step/{ty}"), "block position differs: {:?} vs {:?}", a.get_block_pos(), b.get_block_pos());
    ensure!(a.remaining_blocks() == b.remaining_blocks(), format!("C07/remaining-vs-single-step/{ty}"), "remaining_blocks differs: {:?} vs {:?}", a.remaining_blocks(), b.remaining_blocks());
    let suffix = tape::bytes(3, 0x5C07 ^ n as u32, 2 * bs);
    let tail = [(2usize, CoreKind::ApplyBlocks, [0u8; 6])];
    let (sa, _) = run_core(a.as_mut(), bs, &suffix, &tail, (0, 0));
    let (sb, _) = run_core(b.as_mut(), bs, &suffix, &tail, (0, 0));
    ensure_eq_bytes!(sa, sb, format!("C07/continuation-vs-single-step/{ty}"), "two further blocks");
    if let Some(w1) = ctx.width1_of(suite) {
        if w1.info.par != par {
            if let Some(f1) = w1.stream(f.kind()) {
                r.label("width-differential");
                let mut c = f1.make_core(Ctor::New, &key, &iv).expect("harness: ctor");
                let (oc, _) = run_core(c.as_mut(), bs, &data, &single, (0, 0));
                ensure_eq_bytes!(oa, oc, format!("C07/output-vs-width1/{ty}"), "width {par} vs width 1");
                let (sc, _) = run_core(c.as_mut(), bs, &suffix, &tail, (0, 0));
                ensure_eq_bytes!(sa, sc, format!("C07/continuation-vs-width1/{ty}"), "width {par} vs width 1");
            }
        }
    }
    Ok(())
}

/// Long one-shot CTS messages: the private bulk helpers (`cbc_dec`, `ecb_enc`, `ecb_dec`) have
/// their own parallel paths; compare with the width-1 twin.
fn cts_long(ctx: &Ctx, t: &mut Tape<'_>, r: &mut Report) -> CheckResult {
    let suite = pick!(ctx, t, r, |s| s.par > 1 && ctx.has_width1(s));
    let Some(w1) = ctx.width1_of(suite) else {
        r.label("config-not-in-this-build");
        return Ok(());
    };
    let v = CtsVariant::ALL[t.idx(6)];
    let f = suite.cts(v).unwrap();
    let f1 = w1.cts(v).unwrap();
    let key = gen_key(t, suite);
    let bs = suite.info.bs;
    let iv = gen_iv(t, bs);
    let par = suite.info.par;
    let n = 1 + gen_nblocks(t, par, 47);
    let resid = t.idx(bs);
    let len = n * bs + resid;
    let data = tape::gen_bytes(t, len);
    let decrypt = t.chance(128);
    let form = t.pick(&[Form::InPlace, Form::B2b, Form::Inout]);
    let pre = gen_prefill_kind(t);
    let ty = f.type_name();
    r.d(|| format!("cts {ty} {} key={} iv={} len={len} (n={n},resid={resid}) form={form:?} data={}", if decrypt { "dec" } else { "enc" }, tape::hex_short(&key), tape::hex_short(&iv), tape::hex_short(&data)));
    r.label("cts");
    r.nontrivial = n > par;
    r.label_if(n > par, "n>par");
    r.label_if(n > par && n % par != 0, "n%par!=0");
    r.label_if(resid != 0, "partial-tail");
    let a = f.make(Ctor::New, &key, &iv).expect("harness: ctor");
    let b = f1.make(Ctor::New, &key, &iv).expect("harness: ctor");
    let mut oa = prefill(pre.0, pre.1, &data);
    let mut ob = vec![0u8; len];
    let (ra, rb) = if decrypt {
        (a.decrypt(form, &data, &mut oa), b.decrypt(Form::InPlace, &data, &mut ob))
    } else {
        (a.encrypt(form, &data, &mut oa), b.encrypt(Form::InPlace, &data, &mut ob))
    };
    ensure!(ra.is_ok() && rb.is_ok(), format!("C07/cts-rejected/{ty}"), "message of {len} >= {bs} bytes rejected");
    ensure_eq_bytes!(oa, ob, format!("C07/output-vs-width1/{ty}"), "width {par} vs width 1, len {len}");
    Ok(())
}
