//! C17 — mode objects do not leak chaining state via Debug output or dropped memory.
//!
//! (a) Debug / algorithm-name text is constant per type: two instances with different keys,
//!     IVs and histories print the same text. No expected strings are hard-coded.
//! (b) (harness built with the mode crates' `zeroize` feature) after `drop_in_place` no 8-byte
//!     window of the IV, the exported state or the next keystream block is left in the
//!     object's storage.

use crate::common::*;
use crate::model::{self, KsModel};
use crate::{ensure, pick};
use vp_base::obj::*;
use vp_base::tape::{self, Tape};

pub const RULE: &str = "tape -> family (block modes | buffered CFB | stream cores | byte-level stream ciphers | CTS), cipher config, two independent \
(key, IV, history) triples -> Debug text (compact and pretty) and algorithm name must coincide; zeroize build: one (key, IV, history), secrets = IV, \
exported state, next keystream block, E(IV) for BelT, byte-reversed counter words; storage scanned before and after drop_in_place; non-trivial = \
the two triples differ and a history is non-empty (a); at least one secret window present before the drop (b); distinct by hash of decoded values";

pub const SIG_F4: &str = "wrapper-buffer_data";

/// F4: Debug of a StreamCipherCoreWrapper alias prints the unused bytes of the current keystream block.
pub fn probe_f4(ctx: &Ctx) -> Option<String> {
    let suite = ctx.suite_named("Toy8x1")?;
    let f = suite.stream(StreamKind::Ctr(32, true))?;
    let mut a = f.make(Ctor::New, &[1u8; 16], &[2u8; 8]).ok()?;
    let mut b = f.make(Ctor::New, &[9u8; 16], &[7u8; 8]).ok()?;
    let mut o = [0u8; 3];
    a.try_apply(ApplyKind::Inout, &[0u8; 3], &mut o).ok()?;
    b.try_apply(ApplyKind::Inout, &[0u8; 3], &mut o).ok()?;
    let (da, db) = (a.debug()?, b.debug()?);
    if da != db && da.contains("buffer_data") {
        Some(format!("after 3 bytes Ctr32BE<Toy8x1> prints `{}`", da.lines().next().unwrap_or("")))
    } else {
        None
    }
}

/// Replace the contents of every `buffer_data: [ ... ]` list by nothing; returns the normalised
/// text and the numbers that were inside the first list.
fn strip_buffer_data(s: &str) -> (String, Vec<u8>) {
    let mut out = String::new();
    let mut nums = Vec::new();
    let mut rest = s;
    let mut first = true;
    while let Some(i) = rest.find("buffer_data: [") {
        let start = i + "buffer_data: [".len();
        out.push_str(&rest[..start]);
        let Some(j) = rest[start..].find(']') else {
            out.push_str(&rest[start..]);
            return (out, nums);
        };
        if first {
            nums = rest[start..start + j].split(|c: char| !c.is_ascii_digit()).filter(|x| !x.is_empty()).filter_map(|x| x.parse().ok()).collect();
            first = false;
        }
        rest = &rest[start + j..];
    }
    out.push_str(rest);
    (out, nums)
}

pub fn check(ctx: &Ctx, t: &mut Tape<'_>, r: &mut Report) -> CheckResult {
    if vp_base::ZEROIZE && t.chance(160) { zeroize_scan(ctx, t, r) } else { debug_text(ctx, t, r) }
}

struct Built {
    debug: Option<String>,
    core_debug: Option<String>,
    /// for wrappers: the bytes that a leaking Debug would show (unused part of the current keystream block)
    buffered: Vec<u8>,
    /// false when a call of the history was refused (then `buffered` is not meaningful)
    history_ok: bool,
}

fn build(ctx: &Ctx, suite: &Suite, family: usize, sel: usize, key: &[u8], ivseed: (u8, u32), hist: &[usize], pos_sel: u8) -> (String, Option<String>, Built) {
    let _ = ctx;
    let bs = suite.info.bs;
    match family {
        0 => {
            let modes = modes_for(suite);
            let (mode, dir) = modes[(sel * modes.len()) >> 8];
            let f = suite.block_mode(mode, dir).unwrap();
            let iv = tape::bytes(ivseed.0, ivseed.1, f.iv_len());
            let mut o = f.make(Ctor::New, key, &iv).expect("harness: ctor");
            for (i, n) in hist.iter().enumerate() {
                let d = tape::bytes(3, ivseed.1 ^ i as u32, (n % 4) * f.unit());
                let _ = run_simple(o.as_mut(), &d);
            }
            (f.type_name(), f.alg_name(), Built { debug: o.debug(), core_debug: None, buffered: vec![], history_ok: true })
        }
        1 => {
            let f = &suite.buf_cfb[(sel * suite.buf_cfb.len()) >> 8];
            let iv = tape::bytes(ivseed.0, ivseed.1, bs);
            let mut o = f.make(Ctor::New, key, &iv).expect("harness: ctor");
            for (i, n) in hist.iter().enumerate() {
                let mut d = tape::bytes(3, ivseed.1 ^ i as u32, *n);
                o.process(&mut d);
            }
            (f.type_name(), f.alg_name(), Built { debug: o.debug(), core_debug: None, buffered: vec![], history_ok: true })
        }
        2 => {
            let f = &suite.streams[(sel * suite.streams.len()) >> 8];
            let iv = tape::bytes(ivseed.0, ivseed.1, bs);
            let mut o = f.make_core(Ctor::New, key, &iv).expect("harness: ctor");
            for (i, n) in hist.iter().enumerate() {
                let d = tape::bytes(3, ivseed.1 ^ i as u32, (n % 4) * bs);
                let mut out = vec![0u8; d.len()];
                o.process(CoreKind::ApplyBlocksInout, &d, &mut out, &mut Sched::new([0; 6]));
            }
            // the position is part of the history too: small, far, and within a few blocks of the end
            if let Some(w) = f.kind().width() {
                let maxidx: u128 = if w == 128 { u128::MAX } else { (1u128 << w) - 1 };
                let p = match pos_sel {
                    0..=99 => None,
                    100..=149 => Some((pos_sel as u128) % 50),
                    150..=199 => Some((maxidx / 3).wrapping_mul(pos_sel as u128 % 3 + 1) & maxidx),
                    _ => Some(maxidx - (pos_sel as u128 % 5)),
                };
                if let Some(p) = p {
                    let _ = o.set_block_pos(p);
                }
            }
            (f.core_type_name(), f.alg_name(), Built { debug: o.debug(), core_debug: None, buffered: vec![], history_ok: true })
        }
        3 => {
            let f = &suite.streams[(sel * suite.streams.len()) >> 8];
            let iv = tape::bytes(ivseed.0, ivseed.1, bs);
            let mut o = f.make(Ctor::New, key, &iv).expect("harness: ctor");
            let mut total = 0usize;
            let mut history_ok = true;
            for (i, n) in hist.iter().enumerate() {
                let d = tape::bytes(3, ivseed.1 ^ i as u32, *n);
                let mut out = vec![0u8; d.len()];
                history_ok &= o.try_apply(ApplyKind::Inout, &d, &mut out).is_ok();
                total += n;
            }
            // what a leaking Debug would show: the unused part of the current keystream block, read
            // from an identically driven twin (no reference model involved)
            let off = total % bs;
            let buffered = if off == 0 || !history_ok {
                vec![]
            } else {
                let mut twin = f.make(Ctor::New, key, &iv).expect("harness: ctor");
                for (i, n) in hist.iter().enumerate() {
                    let d = tape::bytes(3, ivseed.1 ^ i as u32, *n);
                    let mut out = vec![0u8; d.len()];
                    history_ok &= twin.try_apply(ApplyKind::Inout, &d, &mut out).is_ok();
                }
                let z = vec![0u8; bs - off];
                let mut pending = vec![0u8; bs - off];
                history_ok &= twin.try_apply(ApplyKind::Inout, &z, &mut pending).is_ok();
                pending
            };
            (f.type_name(), f.alg_name(), Built { debug: o.debug(), core_debug: o.core_debug(), buffered, history_ok })
        }
        _ => {
            let v = CtsVariant::ALL[(sel * 6) >> 8];
            let f = suite.cts(v).unwrap();
            let iv = tape::bytes(ivseed.0, ivseed.1, bs);
            let o = f.make(Ctor::New, key, &iv).expect("harness: ctor");
            (f.type_name(), None, Built { debug: o.debug(), core_debug: None, buffered: vec![], history_ok: true })
        }
    }
}

fn debug_text(ctx: &Ctx, t: &mut Tape<'_>, r: &mut Report) -> CheckResult {
    let family = t.pick(&[0usize, 0, 1, 2, 3, 3, 4]);
    let suite = pick!(ctx, t, r, |s| family != 4 || s.has_cts());
    let sel = t.byte() as usize;
    let bs = suite.info.bs;
    let k1 = gen_key(t, suite);
    let k2 = gen_key(t, suite);
    let iv1 = tape::data_spec(t);
    let iv2 = tape::data_spec(t);
    let h1: Vec<usize> = (0..t.idx(4)).map(|i| 1 + ((i * 7 + 3) % (2 * bs))).collect();
    let n2 = t.idx(4);
    let l2 = t.idx(2 * bs + 1);
    let h2: Vec<usize> = (0..n2).map(|_| l2).collect();
    let (ps1, ps2) = (t.byte(), t.byte());
    let (ty, alg1, b1) = build(ctx, suite, family, sel, &k1, iv1, &h1, ps1);
    let (_, alg2, b2) = build(ctx, suite, family, sel, &k2, iv2, &h2, ps2);
    r.label_if(family == 2 && (ps1 >= 200 || ps2 >= 200), "core-near-keystream-end");
    r.label("debug-text");
    r.nontrivial = (k1 != k2 || iv1 != iv2) && (!h1.is_empty() || !h2.is_empty());
    r.d(|| format!("{ty} (k={}, iv={:?}, hist={h1:?}, pos_sel={ps1}) vs (k={}, iv={:?}, hist={h2:?}, pos_sel={ps2})", tape::hex_short(&k1), iv1, tape::hex_short(&k2), iv2));
    ensure!(alg1 == alg2, format!("C17/alg-name-varies/{ty}"), "algorithm name {alg1:?} vs {alg2:?}");
    match (&b1.debug, &b2.debug) {
        (None, None) => {
            r.label("type-has-no-debug");
            r.nontrivial = false;
        }
        (Some(d1), Some(d2)) => {
            if family == 3 && ctx.known(SIG_F4) {
                // known finding: the only varying text may be the contents of buffer_data, and those
                // bytes must be exactly the unused part of the current keystream block
                let ((n1, v1), (n2, v2)) = (strip_buffer_data(d1), strip_buffer_data(d2));
                ensure!(n1 == n2, format!("C17/debug-varies/{ty}"), "Debug text differs outside buffer_data: `{d1}` vs `{d2}`");
                if !(b1.history_ok && b2.history_ok) {
                    // a call of the history was refused (e.g. an IV whose counter is at its limit on a tree
                    // where exhaustion is mis-detected): the pending bytes are unknown, nothing more to compare
                    r.label("history-rejected");
                    return Ok(());
                }
                ensure!(v1 == b1.buffered && v2 == b2.buffered, format!("C17/debug-leaks-other-data/{ty}"), "buffer_data shows {v1:?} / {v2:?}, the pending keystream bytes are {:?} / {:?}", b1.buffered, b2.buffered);
                if !v1.is_empty() || !v2.is_empty() {
                    r.excluded_known += 1;
                    r.label("excluded-F4");
                }
            } else {
                ensure!(d1 == d2, format!("C17/{}/{ty}", if family == 3 { SIG_F4 } else { "debug-varies" }), "Debug text depends on key/IV/history: `{d1}` vs `{d2}`");
            }
        }
        _ => {
            return Err(Violation { sig: format!("C17/debug-availability-varies/{ty}"), msg: "one instance has Debug, the other not".into() });
        }
    }
    ensure!(b1.core_debug == b2.core_debug, format!("C17/debug-varies/{ty}"), "Debug text of the core depends on key/IV/history: {:?} vs {:?}", b1.core_debug, b2.core_debug);
    Ok(())
}

fn zeroize_scan(ctx: &Ctx, t: &mut Tape<'_>, r: &mut Report) -> CheckResult {
    let family = t.pick(&[0usize, 0, 1, 2, 2, 3, 3]);
    let suite = pick!(ctx, t, r, |_| true);
    let sel = t.byte() as usize;
    let bs = suite.info.bs;
    // random key and IV from different seeds (a patterned IV could coincide with cipher key material)
    let ks = t.u32();
    let key = tape::bytes(3, ks ^ 0xA5A5_0001, suite.info.key_len);
    let ivs = t.u32();
    let hist_n = t.idx(4);
    let hist_len = t.idx(3 * bs + 1);
    let c = (suite.keyed)(&key);
    let mut secrets: Vec<Vec<u8>> = Vec::new();
    let push_enc = |secrets: &mut Vec<Vec<u8>>, v: &[u8]| {
        secrets.push(v.to_vec());
        let mut rev = v.to_vec();
        rev.reverse();
        secrets.push(rev);
        for w in [4usize, 8, 16] {
            if v.len() % w == 0 && v.len() > w {
                let mut x = v.to_vec();
                for ch in x.chunks_mut(w) {
                    ch.reverse();
                }
                secrets.push(x);
            }
        }
    };
    r.label("zeroize-scan");
    let (ty, rep): (String, ScanReport) = match family {
        0 => {
            let modes = modes_for(suite);
            let (mode, dir) = modes[(sel * modes.len()) >> 8];
            let f = suite.block_mode(mode, dir).unwrap();
            let iv = tape::bytes(3, ivs ^ 0x5A5A_0002, f.iv_len());
            let mut o = f.make(Ctor::New, &key, &iv).expect("harness: ctor");
            let mut chain = iv.clone();
            for i in 0..hist_n {
                let d = tape::bytes(3, ivs ^ i as u32, (hist_len % 3) * f.unit());
                let _ = run_simple(o.as_mut(), &d);
                chain = model::block_mode(c.as_ref(), mode, dir, &chain, &d).1;
            }
            if hist_n == 0 {
                push_enc(&mut secrets, &iv);
            }
            if let Some(s) = o.iv_state() {
                push_enc(&mut secrets, &s);
            }
            push_enc(&mut secrets, &chain);
            // CFB keeps E(chain) = the next keystream block
            if mode == Mode::Cfb || mode == Mode::Ofb {
                let mut e = chain.clone();
                c.enc(&mut e);
                secrets.push(e);
            }
            r.d(|| format!("{} key={} iv={} after {hist_n}x{} units", f.type_name(), tape::hex_short(&key), tape::hex_short(&iv), hist_len % 3));
            (f.type_name(), o.drop_scan(&secrets))
        }
        1 => {
            let f = &suite.buf_cfb[(sel * suite.buf_cfb.len()) >> 8];
            let iv = tape::bytes(3, ivs ^ 0x5A5A_0002, bs);
            let mut o = f.make(Ctor::New, &key, &iv).expect("harness: ctor");
            for i in 0..hist_n {
                let mut d = tape::bytes(3, ivs ^ i as u32, hist_len);
                o.process(&mut d);
            }
            let (blk, _) = o.get_state();
            secrets.push(blk);
            r.d(|| format!("{} key={} iv={} after {hist_n}x{hist_len} bytes", f.type_name(), tape::hex_short(&key), tape::hex_short(&iv)));
            (f.type_name(), o.drop_scan(&secrets))
        }
        _ => {
            let f = &suite.streams[(sel * suite.streams.len()) >> 8];
            let iv = tape::bytes(3, ivs ^ 0x5A5A_0002, bs);
            let ksm = KsModel::new(c.as_ref(), f.kind(), &iv);
            if family == 2 {
                let mut o = f.make_core(Ctor::New, &key, &iv).expect("harness: ctor");
                let nblk = hist_n * (hist_len % 3);
                // 64/128-bit counters: start from a large block position so that the counter value
                // itself is an 8-byte secret window
                let mut start: u128 = 0;
                if let StreamKind::Ctr(w, _) = f.kind() {
                    if w >= 64 {
                        let mut st = (ivs as u64) << 16 | 0xC17;
                        let x = ((tape::splitmix(&mut st) as u128) << 64) | tape::splitmix(&mut st) as u128;
                        start = if w == 64 { (x as u64 as u128) >> 1 } else { x >> 1 };
                        o.set_block_pos(start);
                    }
                }
                for i in 0..hist_n {
                    let d = tape::bytes(3, ivs ^ i as u32, (hist_len % 3) * bs);
                    let mut out = vec![0u8; d.len()];
                    o.process(CoreKind::ApplyBlocksInout, &d, &mut out, &mut Sched::new([0; 6]));
                }
                push_enc(&mut secrets, &iv);
                if let Some(s) = o.iv_state() {
                    push_enc(&mut secrets, &s);
                }
                match f.kind() {
                    StreamKind::Ctr(w, _) if w >= 64 => {
                        let v = start + nblk as u128;
                        secrets.push(v.to_le_bytes()[..(w / 8) as usize].to_vec());
                        r.label("counter-value-secret");
                    }
                    StreamKind::Belt => {
                        secrets.push(ksm.s0.to_le_bytes().to_vec());
                        secrets.push(ksm.s0.wrapping_add(nblk as u128).to_le_bytes().to_vec());
                    }
                    StreamKind::Ofb => secrets.push(ksm.iv_state_after(nblk as u128)),
                    _ => {}
                }
                r.d(|| format!("{} key={} iv={} after {nblk} blocks", f.core_type_name(), tape::hex_short(&key), tape::hex_short(&iv)));
                (f.core_type_name(), o.drop_scan(&secrets))
            } else {
                let mut o = f.make(Ctor::New, &key, &iv).expect("harness: ctor");
                let mut total = 0;
                for i in 0..hist_n {
                    let d = tape::bytes(3, ivs ^ i as u32, hist_len);
                    let mut out = vec![0u8; d.len()];
                    let _ = o.try_apply(ApplyKind::Inout, &d, &mut out);
                    total += hist_len;
                }
                push_enc(&mut secrets, &iv);
                if let Some(s) = o.core_iv_state() {
                    push_enc(&mut secrets, &s);
                }
                if total % bs != 0 {
                    // pending keystream bytes sit in the wrapper's buffer
                    secrets.push(ksm.ks_block((total / bs) as u128)[total % bs..].to_vec());
                    r.label("pending-keystream-in-buffer");
                }
                if f.kind() == StreamKind::Belt {
                    secrets.push(ksm.s0.to_le_bytes().to_vec());
                }
                r.d(|| format!("{} key={} iv={} after {total} bytes", f.type_name(), tape::hex_short(&key), tape::hex_short(&iv)));
                (f.type_name(), o.drop_scan(&secrets))
            }
        }
    };
    r.nontrivial = rep.before >= 1;
    r.label_if(rep.before == 0, "no-secret-window-before-drop");
    ensure!(rep.after.is_empty(), format!("C17/secret-survives-drop/{ty}"), "{} secret window(s) still in the {}-byte object after drop (secret#, offset in secret, offset in object): {:?}; secrets: {:?}", rep.after.len(), rep.size, rep.after, secrets.iter().map(|s| tape::hex_short(s)).collect::<Vec<_>>());
    Ok(())
}
