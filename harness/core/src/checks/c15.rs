//! C15 — error propagation and data dependence match each mode's definition.
//!
//! Oracle (metamorphic): the support of `dec(c) ^ dec(c ^ delta@j)` is exactly what the
//! definition prescribes; only consequences of `E`/`D` being permutations are asserted as
//! "must differ" (soundness rule 3), everything else is compared with the reference model's
//! output for the perturbed input. Causality: no output unit depends on later input.
//! Keystream independence for CTR / OFB / BelT-CTR.

use crate::common::*;
use crate::model::{self, KsModel};
use crate::{ensure, ensure_eq_bytes, pick};
use vp_base::obj::*;
use vp_base::tape::{self, Tape};
use vp_base::toy;

pub const RULE: &str = "tape -> (decryption error propagation for CBC, CFB, CFB-8, PCBC, IGE | bit-flip transparency of CTR/OFB/BelT | causality of every \
block mode and direction | keystream independence of the stream modes), cipher config, key, IV, input of n >= 3 units, position j, non-zero delta \
(single bit, single byte, whole block); oracle = prescribed support of the difference + reference model of the perturbed input; non-trivial = \
0 < j < n-1; distinct by hash of decoded values";

pub fn check(ctx: &Ctx, t: &mut Tape<'_>, r: &mut Report) -> CheckResult {
    match t.pick(&[0u8, 0, 0, 1, 2, 3]) {
        0 => dec_propagation(ctx, t, r),
        1 => stream_transparency(ctx, t, r),
        2 => causality(ctx, t, r),
        _ => keystream_independence(ctx, t, r),
    }
}

/// non-zero difference of `len` bytes: single bit, single byte or a whole random pattern
fn gen_delta(t: &mut Tape<'_>, len: usize) -> Vec<u8> {
    let class = t.byte();
    let a = t.u32();
    let mut d = vec![0u8; len];
    match class {
        0..=99 => d[(a as usize >> 3) % len] = 1 << (a & 7),
        100..=179 => d[(a as usize >> 8) % len] = (a as u8).max(1),
        _ => {
            tape::fill(3, a | 1, &mut d);
            if d.iter().all(|b| *b == 0) {
                d[0] = 0x80;
            }
        }
    }
    d
}

fn xor(a: &[u8], b: &[u8]) -> Vec<u8> {
    a.iter().zip(b.iter()).map(|(x, y)| x ^ y).collect()
}

/// how the ciphertext is pushed through the decryptor
#[derive(Clone, Debug)]
enum DecPath {
    /// block-level decryptor driven through a generated composition of calls (incl. backend-level schedules)
    Blocks(Vec<Piece>),
    OneShot,
    /// buffered CFB decryptor fed in the given pieces
    Buffered(Vec<usize>),
}

fn dec_all(suite: &Suite, f: &dyn BlockModeFactory, key: &[u8], iv: &[u8], ct: &[u8], unit: usize, path: &DecPath) -> Result<Vec<u8>, Violation> {
    match path {
        DecPath::OneShot => {
            let obj = f.make(Ctor::New, key, iv).expect("harness: ctor");
            let mut o = vec![0u8; ct.len()];
            let res = obj.oneshot(OneShot::Async(Form::B2b), ct, &mut o).ok_or_else(|| Violation { sig: format!("C15/no-async/{}", f.type_name()), msg: "type no longer implements AsyncStreamCipher".into() })?;
            ensure!(res.is_ok(), format!("C15/async-rejected/{}", f.type_name()), "equal lengths rejected");
            Ok(o)
        }
        DecPath::Blocks(pieces) => {
            let mut obj = f.make(Ctor::New, key, iv).expect("harness: ctor");
            let whole = ct.len() - ct.len() % unit;
            if pieces.is_empty() {
                return Ok(run_simple(obj.as_mut(), &ct[..whole]));
            }
            Ok(run_pieces(obj.as_mut(), unit, &ct[..whole], pieces, (3, 0x15)).map_err(|v| with_sig("C15", &f.type_name(), v))?.out)
        }
        DecPath::Buffered(cuts) => {
            let mut b = suite.buf(Direction::Dec).unwrap().make(Ctor::New, key, iv).expect("harness: ctor");
            Ok(run_buf(b.as_mut(), ct, cuts))
        }
    }
}

fn dec_propagation(ctx: &Ctx, t: &mut Tape<'_>, r: &mut Report) -> CheckResult {
    let mode = t.pick(&[Mode::Cbc, Mode::Cfb, Mode::Cfb8, Mode::Pcbc, Mode::Ige]);
    let suite = pick!(ctx, t, r, |s| s.has_dec || !mode.needs_dec(Direction::Dec));
    let f = suite.block_mode(mode, Direction::Dec).unwrap();
    let bs = suite.info.bs;
    let key = gen_key(t, suite);
    let iv = gen_iv(t, f.iv_len());
    let ty = f.type_name();
    let c = (suite.keyed)(&key);
    if mode == Mode::Cfb8 {
        // units are bytes
        let n = 3 + t.idx(4 * bs + 6);
        let ct = tape::gen_bytes(t, n);
        let j = t.idx(n);
        let delta = (t.byte()).max(1);
        let mut ct2 = ct.clone();
        ct2[j] ^= delta;
        r.nontrivial = j > 0 && j + 1 < n;
        r.label("cfb8");
        r.d(|| format!("{ty} key={} iv={} n={n} bytes j={j} delta={delta:#x} ct={}", tape::hex_short(&key), tape::hex_short(&iv), tape::hex_short(&ct)));
        let (p1, p2) = (dec_all(suite, f, &key, &iv, &ct, 1, &DecPath::OneShot)?, dec_all(suite, f, &key, &iv, &ct2, 1, &DecPath::OneShot)?);
        let d = xor(&p1, &p2);
        ensure!(d[..j].iter().all(|b| *b == 0), format!("C15/cfb8-earlier-bytes-changed/{ty}"), "altering ciphertext byte {j} changed an earlier plaintext byte");
        ensure!(d[j] == delta, format!("C15/cfb8-same-byte/{ty}"), "plaintext byte {j} changed by {:#x}, ciphertext byte by {delta:#x}", d[j]);
        let resync = j + bs + 1;
        if resync < n {
            r.label("cfb8-resync-observed");
            ensure!(d[resync..].iter().all(|b| *b == 0), format!("C15/cfb8-no-resync/{ty}"), "plaintext still differs more than {bs} bytes after the altered byte {j}");
        }
        let (m2, _) = model::cfb8_dec(c.as_ref(), &iv, &ct2);
        ensure_eq_bytes!(p2, m2, format!("C15/perturbed-vs-model/{ty}"), "decryption of the altered ciphertext");
        return Ok(());
    }
    let n = 3 + gen_nblocks(t, suite.info.par, 12);
    let tail = if mode == Mode::Cfb && t.chance(96) { t.idx(bs) } else { 0 };
    let ct = tape::gen_bytes(t, n * bs + tail);
    let j = t.idx(n);
    let delta = gen_delta(t, bs);
    let mut ct2 = ct.clone();
    for (a, b) in ct2[j * bs..(j + 1) * bs].iter_mut().zip(delta.iter()) {
        *a ^= *b;
    }
    r.nontrivial = j > 0 && j + 1 < n;
    r.label(match mode {
        Mode::Cbc => "cbc",
        Mode::Cfb => "cfb",
        Mode::Pcbc => "pcbc",
        _ => "ige",
    });
    r.d(|| format!("{ty} key={} iv={} n={n}+{tail} j={j} delta={} ct={}", tape::hex_short(&key), tape::hex_short(&iv), tape::hex_short(&delta), tape::hex_short(&ct)));
    // CFB has three decrypting front-ends: block level, one-shot, buffered (fed in generated pieces)
    let psel = t.byte();
    let cuts = gen_cuts(t, ct.len(), bs, 5);
    // (read last so that older tapes keep their meaning) how the block-level decryptor is called
    let pieces = if t.chance(160) { gen_pieces(t, n, 4, suite.info.par) } else { Vec::new() };
    r.label_if(pieces.len() > 1, "block-path-in-several-calls");
    let path = if mode != Mode::Cfb {
        DecPath::Blocks(pieces)
    } else if psel < 100 {
        r.label("cfb-buffered");
        DecPath::Buffered(cuts)
    } else if tail > 0 || psel < 180 {
        DecPath::OneShot
    } else {
        DecPath::Blocks(pieces)
    };
    r.d(|| format!("path={path:?}"));
    let (p1, p2) = (dec_all(suite, f, &key, &iv, &ct, bs, &path)?, dec_all(suite, f, &key, &iv, &ct2, bs, &path)?);
    let d = xor(&p1, &p2);
    let blk = |k: usize| -> &[u8] { &d[k * bs..((k + 1) * bs).min(d.len())] };
    let zero = |s: &[u8]| s.iter().all(|b| *b == 0);
    ensure!(zero(&d[..j * bs]), format!("C15/earlier-blocks-changed/{ty}"), "altering ciphertext block {j} changed an earlier plaintext block");
    match mode {
        Mode::Cbc => {
            ensure!(!zero(blk(j)), format!("C15/cbc-block-j-unchanged/{ty}"), "plaintext block {j} did not change although D's input did");
            if j + 1 < n {
                ensure_eq_bytes!(blk(j + 1), delta, format!("C15/cbc-next-block-bits/{ty}"), "plaintext block {} must flip exactly the altered bits", j + 1);
            }
            if (j + 2) * bs < d.len() {
                ensure!(zero(&d[(j + 2) * bs..]), format!("C15/cbc-no-resync/{ty}"), "plaintext differs beyond block {}", j + 1);
            }
        }
        Mode::Cfb => {
            ensure_eq_bytes!(blk(j), delta, format!("C15/cfb-same-block-bits/{ty}"), "plaintext block {j} must flip exactly the altered bits");
            if (j + 2) * bs <= d.len() {
                ensure!(!zero(blk(j + 1)), format!("C15/cfb-next-block-unchanged/{ty}"), "plaintext block {} did not change although E's input did", j + 1);
            }
            if (j + 2) * bs < d.len() {
                ensure!(zero(&d[(j + 2) * bs..]), format!("C15/cfb-no-resync/{ty}"), "plaintext differs beyond block {}", j + 1);
            }
        }
        _ => {
            ensure!(!zero(blk(j)), format!("C15/block-j-unchanged/{ty}"), "plaintext block {j} did not change although D's input did");
        }
    }
    let (m2, _) = model::block_mode(c.as_ref(), mode, Direction::Dec, &iv, &ct2);
    ensure_eq_bytes!(p2, m2[..p2.len()], format!("C15/perturbed-vs-model/{ty}"), "decryption of the altered ciphertext (block {j})");
    Ok(())
}

fn stream_transparency(ctx: &Ctx, t: &mut Tape<'_>, r: &mut Report) -> CheckResult {
    let suite = pick!(ctx, t, r, |_| true);
    let f = &suite.streams[t.idx(suite.streams.len())];
    let bs = suite.info.bs;
    let key = gen_key(t, suite);
    let kc = (suite.keyed)(&key);
    let iv = gen_stream_iv(t, f.kind(), bs, kc.as_ref(), suite.info.has_dec);
    let n = 3 + t.idx(5 * bs);
    let ct = tape::gen_bytes(t, n);
    let j = t.idx(n);
    let dl = 1 + t.idx((n - j).min(2 * bs));
    let delta = gen_delta(t, dl);
    let cuts1 = gen_cuts(t, n, bs, 4);
    let cuts2 = gen_cuts(t, n, bs, 4);
    let ty = f.type_name();
    let mut ct2 = ct.clone();
    for (a, b) in ct2[j..j + dl].iter_mut().zip(delta.iter()) {
        *a ^= *b;
    }
    r.label("stream-transparency");
    r.nontrivial = j > 0 && j + dl < n;
    r.d(|| format!("{ty} key={} iv={} n={n} j={j} delta={} cuts={} / {}", tape::hex_short(&key), tape::hex_short(&iv), tape::hex_short(&delta), describe_cuts(&cuts1), describe_cuts(&cuts2)));
    let mut a = f.make(Ctor::New, &key, &iv).expect("harness: ctor");
    let mut b = f.make(Ctor::New, &key, &iv).expect("harness: ctor");
    let (Some(p1), Some(p2)) = (run_stream_opt(a.as_mut(), &ct, &cuts1, &[ApplyKind::Inout; 4], (0, 0)), run_stream_opt(b.as_mut(), &ct2, &cuts2, &[ApplyKind::InPlace; 4], (0, 0))) else {
        // a refused in-range request is C11's business, not an error-propagation question
        r.label("refused");
        r.nontrivial = false;
        return Ok(());
    };
    let d = xor(&p1, &p2);
    let mut want = vec![0u8; n];
    want[j..j + dl].copy_from_slice(&delta);
    ensure_eq_bytes!(d, want, format!("C15/stream-bitflip/{ty}"), "difference of the outputs must equal the difference of the inputs");
    Ok(())
}

fn causality(ctx: &Ctx, t: &mut Tape<'_>, r: &mut Report) -> CheckResult {
    let suite = pick!(ctx, t, r, |_| true);
    let modes = modes_for(suite);
    let (mode, dir) = modes[t.idx(modes.len())];
    let f = suite.block_mode(mode, dir).unwrap();
    let unit = f.unit();
    let key = gen_key(t, suite);
    let iv = gen_iv(t, f.iv_len());
    let n = 3 + if unit == 1 { t.idx(3 * suite.info.bs) } else { gen_nblocks(t, suite.info.par, 20) };
    let data = tape::gen_bytes(t, n * unit);
    let j = t.idx(n);
    let delta = gen_delta(t, unit);
    let pieces = gen_pieces(t, n, 4, suite.info.par);
    let ty = f.type_name();
    let mut data2 = data.clone();
    for (a, b) in data2[j * unit..(j + 1) * unit].iter_mut().zip(delta.iter()) {
        *a ^= *b;
    }
    r.label("causality");
    r.nontrivial = j > 0 && j + 1 < n;
    r.d(|| format!("{ty} key={} iv={} n={n} j={j} pieces=[{}]", tape::hex_short(&key), tape::hex_short(&iv), describe_pieces(&pieces)));
    let mut a = f.make(Ctor::New, &key, &iv).expect("harness: ctor");
    let mut b = f.make(Ctor::New, &key, &iv).expect("harness: ctor");
    let o1 = run_pieces(a.as_mut(), unit, &data, &pieces, (0, 0)).map_err(|v| with_sig("C15", &ty, v))?.out;
    let o2 = run_pieces(b.as_mut(), unit, &data2, &pieces, (0, 0)).map_err(|v| with_sig("C15", &ty, v))?.out;
    ensure_eq_bytes!(o2[..j * unit], o1[..j * unit], format!("C15/output-depends-on-later-input/{ty}"), "changing input unit {j} changed an earlier output unit");
    // the unit itself must change for the modes where the altered unit goes through a permutation or an XOR
    ensure!(o1[j * unit..(j + 1) * unit] != o2[j * unit..(j + 1) * unit], format!("C15/unit-j-unchanged/{ty}"), "output unit {j} is unchanged although input unit {j} changed");
    Ok(())
}

fn keystream_independence(ctx: &Ctx, t: &mut Tape<'_>, r: &mut Report) -> CheckResult {
    let suite = pick!(ctx, t, r, |_| true);
    let f = &suite.streams[t.idx(suite.streams.len())];
    let bs = suite.info.bs;
    let key = gen_key(t, suite);
    let kc = (suite.keyed)(&key);
    let iv = gen_stream_iv(t, f.kind(), bs, kc.as_ref(), suite.info.has_dec);
    let n = 1 + t.idx(5 * bs);
    let m1 = tape::gen_bytes(t, n);
    let m2 = tape::gen_bytes(t, n);
    let cuts = gen_cuts(t, n, bs, 4);
    let ty = f.type_name();
    r.label("keystream-independence");
    r.nontrivial = m1 != m2 && n > bs;
    r.d(|| format!("{ty} key={} iv={} n={n} cuts={} m1={} m2={}", tape::hex_short(&key), tape::hex_short(&iv), describe_cuts(&cuts), tape::hex_short(&m1), tape::hex_short(&m2)));
    let mut a = f.make(Ctor::New, &key, &iv).expect("harness: ctor");
    let mut b = f.make(Ctor::New, &key, &iv).expect("harness: ctor");
    toy::log_start();
    let o1 = run_stream_opt(a.as_mut(), &m1, &cuts, &[ApplyKind::Inout; 4], (0, 0));
    let l1 = toy::log_take();
    toy::log_start();
    let o2 = run_stream_opt(b.as_mut(), &m2, &cuts, &[ApplyKind::Inout; 4], (0, 0));
    let l2 = toy::log_take();
    ensure!(o1.is_some() == o2.is_some(), format!("C15/verdict-depends-on-data/{ty}"), "whether the request is accepted depends on the data");
    let (Some(o1), Some(o2)) = (o1, o2) else {
        r.label("refused");
        r.nontrivial = false;
        return Ok(());
    };
    ensure_eq_bytes!(xor(&o1, &m1), xor(&o2, &m2), format!("C15/keystream-depends-on-data/{ty}"), "keystream recovered from two different messages");
    ensure!(l1 == l2, format!("C15/cipher-inputs-depend-on-data/{ty}"), "the blocks fed to the cipher differ between the two messages");
    ensure!(a.core_iv_state() == b.core_iv_state() && a.core_block_pos() == b.core_block_pos(), format!("C15/state-depends-on-data/{ty}"), "state after processing depends on the data");
    // the model agrees on what the keystream is
    let c = (suite.keyed)(&key);
    let ks = KsModel::new(c.as_ref(), f.kind(), &iv).ks_bytes(0, n);
    ensure_eq_bytes!(xor(&o1, &m1), ks, format!("C15/keystream-vs-model/{ty}"), "keystream bytes 0..{n}");
    Ok(())
}
