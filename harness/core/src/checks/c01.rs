//! C01 — decryption inverts encryption through every public way of driving a mode;
//! unpadded operations preserve length.
//!
//! Oracle: round trip `dec_b(enc_a(m)) == m` with the encrypting and decrypting API paths
//! generated independently, plus the length law.

use crate::common::*;
use crate::{ensure, ensure_eq_bytes, pick};
use vp_base::obj::*;
use vp_base::tape::{self, Tape};

pub const RULE: &str = "tape -> family (block modes | padded one-shots | async one-shots | buffered CFB | stream wrappers/cores | CTS), \
cipher config, key, IV, message of an accepted length (classes 0,<b,=b,k*b,k*b+-1,any), encrypting path and decrypting path generated \
independently (call kinds, chunkings, forms, paddings); oracle = round trip + length law; non-trivial = more than one block or a partial \
block; distinct by hash of decoded values";

pub fn check(ctx: &Ctx, t: &mut Tape<'_>, r: &mut Report) -> CheckResult {
    match t.pick(&[0u8, 1, 2, 3, 4, 5, 0, 4]) {
        0 => block_modes(ctx, t, r),
        1 => padded(ctx, t, r),
        2 => async_oneshot(ctx, t, r),
        3 => buffered(ctx, t, r),
        4 => streams(ctx, t, r),
        _ => cts(ctx, t, r),
    }
}

fn block_modes(ctx: &Ctx, t: &mut Tape<'_>, r: &mut Report) -> CheckResult {
    let mode = t.pick(&Mode::ALL);
    let suite = pick!(ctx, t, r, |s| s.has_dec || !mode.needs_dec(Direction::Dec));
    let fe = suite.block_mode(mode, Direction::Enc).unwrap();
    let fd = suite.block_mode(mode, Direction::Dec).unwrap();
    let key = gen_key(t, suite);
    let iv = gen_iv(t, fe.iv_len());
    let unit = fe.unit();
    let par = suite.info.par;
    let n = gen_nblocks(t, par, 40);
    let m = tape::gen_bytes(t, n * unit);
    let pre = gen_prefill_kind(t);
    let pe = gen_pieces(t, n, 4, par);
    let pd = gen_pieces(t, n, 4, par);
    let (ce, cd) = (ctor_pick(t), ctor_pick(t));
    r.label("block-mode");
    r.nontrivial = n >= 2;
    r.label_if(describe_pieces(&pe) != describe_pieces(&pd), "paths-differ");
    r.d(|| format!("{} / {} key={} iv={} n={n} msg={} enc=[{}] dec=[{}]", fe.type_name(), fd.type_name(), tape::hex_short(&key), tape::hex_short(&iv), tape::hex_short(&m), describe_pieces(&pe), describe_pieces(&pd)));
    let ty = fe.type_name();
    let mut e = fe.make(ce, &key, &iv).map_err(|_| Violation { sig: format!("C01/ctor-rejected/{ty}"), msg: format!("{ce:?} rejected correct lengths") })?;
    let mut d = fd.make(cd, &key, &iv).map_err(|_| Violation { sig: format!("C01/ctor-rejected/{}", fd.type_name()), msg: format!("{cd:?} rejected correct lengths") })?;
    let ct = run_pieces(e.as_mut(), unit, &m, &pe, pre).map_err(|v| with_sig("C01", &ty, v))?.out;
    ensure!(ct.len() == m.len(), format!("C01/length/{ty}"), "ciphertext has {} bytes for a {}-byte message", ct.len(), m.len());
    let pt = run_pieces(d.as_mut(), unit, &ct, &pd, pre).map_err(|v| with_sig("C01", &fd.type_name(), v))?.out;
    ensure_eq_bytes!(pt, m, format!("C01/roundtrip/{ty}"), "enc [{}] then dec [{}]", describe_pieces(&pe), describe_pieces(&pd));
    Ok(())
}

const PADS: [Pad; 4] = [Pad::Pkcs7, Pad::Iso7816, Pad::AnsiX923, Pad::NoPadding];
const FORMS4: [Form; 4] = [Form::InPlace, Form::B2b, Form::Inout, Form::Vec];
const FORMS3: [Form; 3] = [Form::InPlace, Form::B2b, Form::Inout];

fn padded(ctx: &Ctx, t: &mut Tape<'_>, r: &mut Report) -> CheckResult {
    let mode = t.pick(&Mode::ALL);
    let suite = pick!(ctx, t, r, |s| s.has_dec || !mode.needs_dec(Direction::Dec));
    let fe = suite.block_mode(mode, Direction::Enc).unwrap();
    let fd = suite.block_mode(mode, Direction::Dec).unwrap();
    let key = gen_key(t, suite);
    let iv = gen_iv(t, fe.iv_len());
    let unit = fe.unit();
    let pad = t.pick(&PADS);
    let mut len = gen_msg_len(t, unit, 12);
    if pad == Pad::NoPadding {
        len -= len % unit;
    }
    let m = tape::gen_bytes(t, len);
    let (f1, f2) = (t.pick(&FORMS4), t.pick(&FORMS4));
    let slack = t.idx(4) * unit; // extra room in the output buffer
    let pre = gen_prefill_kind(t);
    let ty = fe.type_name();
    r.label("padded");
    r.nontrivial = len > unit || len % unit != 0;
    r.label_if(len % unit != 0, "partial-block");
    r.label_if(unit == 1, "unit=1");
    r.d(|| format!("padded {ty} {pad:?} enc={f1:?} dec={f2:?} key={} iv={} len={len} slack={slack} msg={}", tape::hex_short(&key), tape::hex_short(&iv), tape::hex_short(&m)));
    let want_ct_len = if pad == Pad::NoPadding { len } else { unit * (len / unit + 1) };
    let e = fe.make(Ctor::New, &key, &iv).expect("harness: ctor");
    let mut out = prefill(pre.0, pre.1, &vec![0u8; want_ct_len + slack]);
    let n = e
        .oneshot(OneShot::Padded(pad, f1), &m, &mut out)
        .expect("harness: padded is offered by every block mode")
        .map_err(|_| Violation { sig: format!("C01/padded-enc-rejected/{ty}"), msg: format!("{pad:?} {f1:?} with {} bytes of room for a {len}-byte message failed", want_ct_len + slack) })?;
    ensure!(n == want_ct_len, format!("C01/padded-length/{ty}"), "{pad:?}: {n} bytes of ciphertext for a {len}-byte message with {unit}-byte blocks (want {want_ct_len})");
    let ct = out[..n].to_vec();
    let d = fd.make(Ctor::New, &key, &iv).expect("harness: ctor");
    let mut out2 = prefill(pre.0, pre.1 ^ 0x77, &vec![0u8; n + if f2 == Form::B2b { slack } else { 0 }]);
    let n2 = d
        .oneshot(OneShot::Padded(pad, f2), &ct, &mut out2)
        .expect("harness: padded is offered by every block mode")
        .map_err(|_| Violation { sig: format!("C01/padded-dec-rejected/{}", fd.type_name()), msg: format!("{pad:?} {f2:?}: unpadding its own ciphertext failed (len {len})") })?;
    ensure_eq_bytes!(out2[..n2], m, format!("C01/padded-roundtrip/{ty}"), "{pad:?} enc {f1:?} dec {f2:?}");
    Ok(())
}

fn async_oneshot(ctx: &Ctx, t: &mut Tape<'_>, r: &mut Report) -> CheckResult {
    let mode = t.pick(&[Mode::Cfb, Mode::Cfb8]);
    let suite = pick!(ctx, t, r, |_| true);
    let fe = suite.block_mode(mode, Direction::Enc).unwrap();
    let fd = suite.block_mode(mode, Direction::Dec).unwrap();
    let key = gen_key(t, suite);
    let bs = suite.info.bs;
    let iv = gen_iv(t, bs);
    let len = gen_msg_len(t, bs, 8);
    let m = tape::gen_bytes(t, len);
    let (f1, f2) = (t.pick(&FORMS3), t.pick(&FORMS3));
    let dec_path = t.idx(3); // 0 async, 1 buffered (CFB) / block-level (CFB-8), 2 block level on whole blocks + async tail
    let cuts = gen_cuts(t, len, bs, 5);
    let pre = gen_prefill_kind(t);
    let ty = fe.type_name();
    r.label("async");
    r.nontrivial = len > bs || len % bs != 0;
    r.label_if(len % bs != 0, "partial-block");
    r.d(|| format!("async {ty} enc={f1:?} dec={f2:?}/path{dec_path} key={} iv={} len={len} msg={} cuts={}", tape::hex_short(&key), tape::hex_short(&iv), tape::hex_short(&m), describe_cuts(&cuts)));
    let e = fe.make(Ctor::New, &key, &iv).expect("harness: ctor");
    let mut ct = prefill(pre.0, pre.1, &m);
    let n = e
        .oneshot(OneShot::Async(f1), &m, &mut ct)
        .ok_or_else(|| Violation { sig: format!("C01/no-async/{ty}"), msg: "type no longer implements AsyncStreamCipher".into() })?
        .map_err(|_| Violation { sig: format!("C01/async-rejected/{ty}"), msg: format!("{f1:?} with equal lengths failed") })?;
    ensure!(n == len && ct.len() == len, format!("C01/length/{ty}"), "async output length");
    let pt = match (dec_path, mode) {
        (1, Mode::Cfb) => {
            r.label("async->buffered");
            let mut b = suite.buf(Direction::Dec).unwrap().make(Ctor::New, &key, &iv).expect("harness: ctor");
            run_buf(b.as_mut(), &ct, &cuts)
        }
        (1, Mode::Cfb8) | (2, Mode::Cfb8) => {
            r.label("async->blocks");
            let mut d = fd.make(Ctor::New, &key, &iv).expect("harness: ctor");
            run_simple(d.as_mut(), &ct)
        }
        _ => {
            let d = fd.make(Ctor::New, &key, &iv).expect("harness: ctor");
            let mut o = prefill(pre.0, pre.1 ^ 5, &ct);
            d.oneshot(OneShot::Async(f2), &ct, &mut o)
                .ok_or_else(|| Violation { sig: format!("C01/no-async/{}", fd.type_name()), msg: "type no longer implements AsyncStreamCipher".into() })?
                .map_err(|_| Violation { sig: format!("C01/async-rejected/{}", fd.type_name()), msg: format!("{f2:?} with equal lengths failed") })?;
            o
        }
    };
    ensure_eq_bytes!(pt, m, format!("C01/roundtrip/{ty}"), "async enc {f1:?}, dec path {dec_path} {f2:?}");
    Ok(())
}

fn buffered(ctx: &Ctx, t: &mut Tape<'_>, r: &mut Report) -> CheckResult {
    let suite = pick!(ctx, t, r, |_| true);
    let fe = suite.buf(Direction::Enc).unwrap();
    let fd = suite.buf(Direction::Dec).unwrap();
    let key = gen_key(t, suite);
    let bs = suite.info.bs;
    let iv = gen_iv(t, bs);
    let len = gen_msg_len(t, bs, 8);
    let m = tape::gen_bytes(t, len);
    let c1 = gen_cuts(t, len, bs, 6);
    let c2 = gen_cuts(t, len, bs, 6);
    let via_async = t.chance(64);
    let ty = fe.type_name();
    r.label("buffered-cfb");
    r.nontrivial = len > bs || len % bs != 0;
    r.label_if(c1 != c2, "paths-differ");
    r.d(|| format!("buffered {ty} key={} iv={} len={len} msg={} enc cuts={} dec cuts={} dec-via-async={via_async}", tape::hex_short(&key), tape::hex_short(&iv), tape::hex_short(&m), describe_cuts(&c1), describe_cuts(&c2)));
    let mut e = fe.make(ctor_pick(t), &key, &iv).map_err(|_| Violation { sig: format!("C01/ctor-rejected/{ty}"), msg: "constructor rejected correct lengths".into() })?;
    let ct = run_buf(e.as_mut(), &m, &c1);
    let pt = if via_async {
        let d = suite.block_mode(Mode::Cfb, Direction::Dec).unwrap().make(Ctor::New, &key, &iv).expect("harness: ctor");
        let mut o = ct.clone();
        d.oneshot(OneShot::Async(Form::InPlace), &ct, &mut o);
        o
    } else {
        let mut d = fd.make(Ctor::New, &key, &iv).expect("harness: ctor");
        run_buf(d.as_mut(), &ct, &c2)
    };
    ensure_eq_bytes!(pt, m, format!("C01/roundtrip/{ty}"), "buffered enc cuts {} dec cuts {}", describe_cuts(&c1), describe_cuts(&c2));
    Ok(())
}

fn streams(ctx: &Ctx, t: &mut Tape<'_>, r: &mut Report) -> CheckResult {
    let suite = pick!(ctx, t, r, |_| true);
    let f = &suite.streams[t.idx(suite.streams.len())];
    let key = gen_key(t, suite);
    let bs = suite.info.bs;
    let kc = (suite.keyed)(&key);
    let iv = gen_stream_iv(t, f.kind(), bs, kc.as_ref(), suite.info.has_dec);
    let len = gen_msg_len(t, bs, 8);
    let m = tape::gen_bytes(t, len);
    let c1 = gen_cuts(t, len, bs, 6);
    let c2 = gen_cuts(t, len, bs, 6);
    let k1 = gen_apply_kinds(t, 6);
    let k2 = gen_apply_kinds(t, 6);
    let pre = gen_prefill_kind(t);
    let via_core = t.chance(64) && len % bs == 0;
    let ty = f.type_name();
    r.label("stream");
    r.nontrivial = len > bs || len % bs != 0;
    r.label_if(via_core, "dec-via-core");
    r.d(|| format!("stream {ty} key={} iv={} len={len} msg={} enc cuts={} {:?} dec cuts={} {:?} via_core={via_core}", tape::hex_short(&key), tape::hex_short(&iv), tape::hex_short(&m), describe_cuts(&c1), k1, describe_cuts(&c2), k2));
    let mut e = f.make(ctor_pick(t), &key, &iv).map_err(|_| Violation { sig: format!("C01/ctor-rejected/{ty}"), msg: "constructor rejected correct lengths".into() })?;
    let ct = run_stream(e.as_mut(), &m, &c1, &k1, pre).map_err(|v| with_sig("C01", &ty, v))?;
    ensure!(ct.len() == len, format!("C01/length/{ty}"), "stream output length");
    let pt = if via_core {
        let mut c = f.make_core(Ctor::New, &key, &iv).expect("harness: ctor");
        let mut o = vec![0u8; len];
        let mut s = Sched::new([1, 2, 3, 0, 1, 2]);
        c.process(CoreKind::ApplyBlocksInout, &ct, &mut o, &mut s);
        o
    } else {
        let mut d = f.make(Ctor::New, &key, &iv).expect("harness: ctor");
        run_stream(d.as_mut(), &ct, &c2, &k2, pre).map_err(|v| with_sig("C01", &ty, v))?
    };
    ensure_eq_bytes!(pt, m, format!("C01/roundtrip/{ty}"), "enc cuts {} dec cuts {}", describe_cuts(&c1), describe_cuts(&c2));
    Ok(())
}

fn cts(ctx: &Ctx, t: &mut Tape<'_>, r: &mut Report) -> CheckResult {
    let suite = pick!(ctx, t, r, |s| s.has_cts());
    let v = CtsVariant::ALL[t.idx(6)];
    let f = suite.cts(v).unwrap();
    let key = gen_key(t, suite);
    let bs = suite.info.bs;
    let iv = gen_iv(t, bs);
    let len = bs + gen_msg_len(t, bs, 7);
    let m = tape::gen_bytes(t, len);
    let (f1, f2) = (t.pick(&FORMS3), t.pick(&FORMS3));
    let pre = gen_prefill_kind(t);
    let (c1, c2) = (ctor_pick(t), ctor_pick(t));
    let ty = f.type_name();
    r.label("cts");
    r.nontrivial = len > bs;
    r.label_if(len == bs, "one-block");
    r.label_if(len % bs != 0, "partial-block");
    r.d(|| format!("cts {ty} key={} iv={} len={len} msg={} enc={f1:?} dec={f2:?}", tape::hex_short(&key), tape::hex_short(&iv), tape::hex_short(&m)));
    let e = f.make(c1, &key, &iv).map_err(|_| Violation { sig: format!("C01/ctor-rejected/{ty}"), msg: format!("{c1:?} rejected correct lengths") })?;
    let d = f.make(c2, &key, &iv).map_err(|_| Violation { sig: format!("C01/ctor-rejected/{ty}"), msg: format!("{c2:?} rejected correct lengths") })?;
    let mut ct = prefill(pre.0, pre.1, &m);
    ensure!(e.encrypt(f1, &m, &mut ct).is_ok(), format!("C01/cts-rejected/{ty}"), "encrypting {len} >= {bs} bytes failed");
    let mut pt = prefill(pre.0, pre.1 ^ 9, &m);
    ensure!(d.decrypt(f2, &ct, &mut pt).is_ok(), format!("C01/cts-rejected/{ty}"), "decrypting {len} >= {bs} bytes failed");
    ensure_eq_bytes!(pt, m, format!("C01/roundtrip/{ty}"), "enc {f1:?} dec {f2:?} len {len}");
    Ok(())
}
