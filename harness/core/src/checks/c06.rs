//! C06 — BelT-CTR follows STB 34.101.31: s = E(IV), keystream block i = E(s + i).
//!
//! Oracle: reference model (`s_0 = LE128(E(IV))`, block `i >= 1` is `E(LE(s_0 + i mod 2^128))`);
//! encryption and decryption are the same operation.

use crate::common::*;
use crate::model::KsModel;
use crate::{ensure, ensure_eq_bytes, pick};
use vp_base::obj::*;
use vp_base::tape::{self, Tape};

pub const RULE: &str = "tape -> 16-byte cipher config (toy widths 1,2,3,4,5,8, encrypt-only toy, AES-128, BelT), key, IV random, D(2^128-j) so that s_0+i wraps, or D(x*2^64 + 2^64-1-j) / D(x*2^64 + j) so that the sum carries between 64-bit words early / near block 2^64 and the end, any of the four constructors, start position (block in {0, small, 2^8k+-2, random, near 2^128}, byte offset) reached by try_seek::<T> or set_block_pos, \
<= 8 blocks of data in generated chunks and apply kinds, or (whole blocks) through the block-level core with six call kinds incl. caller-supplied backend closures; oracle = reference model, plus apply twice = identity; non-trivial = more than width \
blocks, or the sum wraps, or a non-zero start; distinct by hash of decoded values";

pub fn check(ctx: &Ctx, t: &mut Tape<'_>, r: &mut Report) -> CheckResult {
    let suite = pick!(ctx, t, r, |s| s.has_stream(StreamKind::Belt));
    let f = suite.stream(StreamKind::Belt).unwrap();
    let bs = 16;
    let par = suite.info.par;
    let key = gen_key(t, suite);
    let c = (suite.keyed)(&key);
    // IV: random, or the preimage of a value just below 2^128 (needs D)
    let ivclass = t.byte();
    let j = t.idx(6) as u128;
    let mut iv = gen_iv(t, bs);
    let near_wrap = ivclass >= 160 && suite.info.has_dec;
    let low_word_carry = (96..160).contains(&ivclass) && suite.info.has_dec;
    if near_wrap || low_word_carry {
        // s_0 just below 2^128, or with its low 64-bit word just below 2^64 (carry between words)
        // (the low word just below 2^64: the sum carries between the 64-bit words early in the stream;
        //  just above 0: it does so for block indices near 2^64 and 2^128, reached by seeking)
        let low = if ivclass >= 128 || near_wrap { u64::MAX as u128 - j } else { j };
        let s0 = if near_wrap { u128::MAX - j } else { ((iv[0] as u128 * 0x0101_0101_0101_0101 + 7) << 64) | low };
        let mut b = s0.to_le_bytes().to_vec();
        c.dec(&mut b);
        iv = b;
    }
    let blk = if t.chance(96) { gen_block_index(t, 128, 12) } else { (t.idx(6)) as u128 };
    let off = if t.chance(128) { t.idx(bs) } else { 0 };
    let p = Pos { blk, off };
    let reach = gen_reach(t, p, bs);
    let mut len = gen_msg_len(t, bs, 8);
    // the request must stay inside the keystream (what happens at its end is C11's business)
    let room = (u128::MAX - blk).saturating_mul(bs as u128).saturating_sub(off as u128);
    if (len as u128) > room {
        len = room as usize;
    }
    let data = tape::gen_bytes(t, len);
    let cuts = gen_cuts(t, len, bs, 5);
    let kinds = gen_apply_kinds(t, 5);
    let pre = gen_prefill_kind(t);
    // every constructor path of the wrapper and of the core must derive the same s_0 = E_K(IV)
    let how = ctor_pick(t);
    let how2 = Ctor::ALL[(t.idx(4) + 1) % 4];
    r.label_if(how != Ctor::New || how2 != Ctor::New, "slice-or-inner-constructor");
    let ty = f.type_name();
    let model = KsModel::new(c.as_ref(), StreamKind::Belt, &iv);
    let nblocks = (off + len).div_ceil(bs) as u128;
    let first = model.s0.wrapping_add(blk).wrapping_add(1);
    let wraps = nblocks > 0 && first.checked_add(nblocks - 1).is_none() || first == 0;
    r.nontrivial = nblocks as usize > par || wraps || blk != 0 || off != 0;
    r.label_if(wraps, "sum-wraps");
    r.label_if(nblocks > 0 && (first as u64).checked_add((nblocks - 1) as u64).is_none(), "low-word-carry-in-request");
    r.label_if(nblocks as usize > par && par > 1, "n>par");
    r.label_if(blk != 0 || off != 0, "nonzero-start");
    r.label_if(blk >= 1 << 64, "index>=2^64");
    r.label_if(!suite.info.is_toy, "real-cipher");
    r.d(|| format!("{ty} key={} iv={} (s0={:#x}) start=(block {blk}, offset {off}) via {reach:?} len={len} cuts={} data={}", tape::hex_short(&key), tape::hex_short(&iv), model.s0, describe_cuts(&cuts), tape::hex_short(&data)));
    // whole blocks from a block boundary are also driven through the block-level core directly, incl.
    // caller-supplied closures that mix gen_ks_block / gen_par_ks_blocks / gen_tail_blocks in any order
    // (read last so that older tapes keep their meaning)
    let via_core = t.chance(56);
    let mut sb = [0u8; 6];
    for x in sb.iter_mut() {
        *x = t.byte();
    }
    if via_core && off == 0 && len % bs == 0 {
        r.label("core-level");
        let mut core = f.make_core(how, &key, &iv).expect("harness: ctor");
        core.set_block_pos(blk).ok_or_else(|| Violation { sig: format!("C06/not-seekable/{ty}"), msg: "core cannot be positioned".into() })?;
        let mut out = Vec::new();
        let mut o = 0;
        for (i, cut) in cuts.iter().enumerate() {
            let take = if i + 1 == cuts.len() { len - o } else { ((cut / bs) * bs).min(len - o) };
            let inp = &data[o..o + take];
            let mut ob = prefill(pre.0, pre.1 ^ i as u32, inp);
            // the backend-schedule kind twice as often as each of the others
            let ck = [CoreKind::Backend, CoreKind::ApplyBlockInout, CoreKind::ApplyBlocks, CoreKind::Backend, CoreKind::ApplyBlocksInout, CoreKind::WriteBlock, CoreKind::WriteBlocks][(sb[i % 6] as usize + i) % 7];
            let mut sch = sb;
            sch.rotate_left(i % 6);
            core.process(ck, inp, &mut ob, &mut Sched::new(sch));
            out.extend_from_slice(&ob);
            o += take;
        }
        let want = model.apply_at(blk, 0, &data);
        ensure_eq_bytes!(out, want, format!("C06/output-core/{}", f.core_type_name()), "{len} bytes from block {blk} through the block-level core, s0={:#x}", model.s0);
        ensure!(core.get_block_pos() == Some(blk + (len / bs) as u128), format!("C06/block-pos/{}", f.core_type_name()), "core block position {:?} after {} blocks from {blk}", core.get_block_pos(), len / bs);
        return Ok(());
    }
    let mut s = position_stream(f, &model, &key, &iv, p, bs, reach, how, "C06")?;
    let out = run_stream(s.as_mut(), &data, &cuts, &kinds, pre).map_err(|v| with_sig("C06", &ty, v))?;
    let want = model.apply_at(blk, off, &data);
    ensure_eq_bytes!(out, want, format!("C06/output/{ty}"), "{len} bytes from block {blk} offset {off}, s0={:#x}", model.s0);
    // encryption and decryption are the same operation
    let mut s2 = position_stream(f, &model, &key, &iv, p, bs, Reach::SetBlockPos, how2, "C06")?;
    let mut back = vec![0u8; len];
    ensure!(s2.try_apply(ApplyKind::Inout, &out, &mut back).is_ok(), format!("C06/apply-rejected/{ty}"), "second pass failed");
    ensure_eq_bytes!(back, data, format!("C06/involution/{ty}"), "applying the keystream twice");
    Ok(())
}
