//! C08 — byte-stream interfaces give the same bytes however the stream is cut into calls;
//! one-shot CFB / CFB-8 are prefix-preserving.
//!
//! Oracle (metamorphic): concatenated outputs of the pieces equal the single-call output of
//! an identically constructed fresh instance; prefix relation for the one-shots.

use crate::common::*;
use crate::{ensure, ensure_eq_bytes, pick};
use vp_base::obj::*;
use vp_base::tape::{self, Tape};

pub const RULE: &str = "tape -> (stream wrapper of any CTR flavour / OFB / BelT-CTR | buffered CFB enc/dec | one-shot CFB/CFB-8 prefix), \
cipher config, key, IV, message <= 8 blocks, composition of |m| into <= 8 pieces with zeros allowed and cuts biased to k*b-1, k*b, k*b+1, \
apply kind per piece (in place / inout / b2b with dirty output), optional non-zero start position; oracle = one call on the whole string; \
non-trivial = >= 3 pieces containing an empty piece or a piece ending on a block boundary followed by a piece shorter than a block; \
distinct by hash of decoded values";

pub fn check(ctx: &Ctx, t: &mut Tape<'_>, r: &mut Report) -> CheckResult {
    match t.pick(&[0u8, 0, 0, 1, 1, 2]) {
        0 => streams(ctx, t, r),
        1 => buffered(ctx, t, r),
        _ => prefix(ctx, t, r),
    }
}

fn classify(r: &mut Report, cuts: &[usize], bs: usize) {
    let mut pos = 0;
    let mut boundary_then_short = false;
    for w in 0..cuts.len() {
        let end = pos + cuts[w];
        if cuts[w] > 0 && end % bs == 0 {
            if let Some(next) = cuts[w + 1..].iter().find(|c| **c > 0) {
                if *next < bs {
                    boundary_then_short = true;
                }
            }
        }
        pos = end;
    }
    let empty = cuts.iter().any(|c| *c == 0);
    r.nontrivial = cuts.len() >= 3 && (empty || boundary_then_short);
    r.label_if(empty, "empty-piece");
    r.label_if(boundary_then_short, "boundary-then-short");
    r.label_if(cuts.len() >= 3, "pieces>=3");
    let mut p = 0;
    let mut straddle = false;
    for c in cuts {
        if *c > 0 && p % bs != 0 && (p % bs) + c > bs {
            straddle = true;
        }
        p += c;
    }
    r.label_if(straddle, "piece-straddles-boundary");
}

fn streams(ctx: &Ctx, t: &mut Tape<'_>, r: &mut Report) -> CheckResult {
    let suite = pick!(ctx, t, r, |_| true);
    let f = &suite.streams[t.idx(suite.streams.len())];
    let bs = suite.info.bs;
    let key = gen_key(t, suite);
    let c = (suite.keyed)(&key);
    let iv = gen_stream_iv(t, f.kind(), bs, c.as_ref(), suite.info.has_dec);
    let len = gen_msg_len(t, bs, 8);
    let data = tape::gen_bytes(t, len);
    let cuts = gen_cuts(t, len, bs, 8);
    let kinds = gen_apply_kinds(t, 8);
    let pre = gen_prefill_kind(t);
    // optional start position for seekable kinds (a small one; big ones are C10's business)
    let start = if f.kind().seekable() && t.chance(96) { t.idx(3 * bs + 1) as u128 } else { 0 };
    let ty = f.type_name();
    r.label("stream");
    classify(r, &cuts, bs);
    r.label_if(start != 0, "nonzero-start");
    r.d(|| format!("{ty} key={} iv={} start={start} len={len} cuts={} kinds={kinds:?} prefill={} data={}", tape::hex_short(&key), tape::hex_short(&iv), describe_cuts(&cuts), pre.0, tape::hex_short(&data)));
    let mut a = f.make(Ctor::New, &key, &iv).expect("harness: ctor");
    let mut b = f.make(Ctor::New, &key, &iv).expect("harness: ctor");
    if start != 0 {
        for s in [&mut a, &mut b] {
            let res = s.try_seek(NumTy::U64, start).ok_or_else(|| Violation { sig: format!("C08/not-seekable/{ty}"), msg: "type no longer seekable".into() })?;
            ensure!(res.is_ok(), format!("C08/seek-rejected/{ty}"), "seek to {start} failed");
        }
    }
    let pieces = run_stream_opt(a.as_mut(), &data, &cuts, &kinds, pre);
    let mut whole = vec![0u8; len];
    let whole_ok = b.try_apply(ApplyKind::Inout, &data, &mut whole).is_ok();
    ensure!(pieces.is_some() == whole_ok, format!("C08/verdict-pieces-vs-whole/{ty}"), "the pieces were {} but the single call of {len} bytes was {}", if pieces.is_some() { "accepted" } else { "refused" }, if whole_ok { "accepted" } else { "refused" });
    let Some(pieces) = pieces else {
        // both ways refused the same data: nothing to compare here (whether that is right is C11's business)
        r.label("both-refused");
        r.nontrivial = false;
        return Ok(());
    };
    ensure_eq_bytes!(pieces, whole, format!("C08/pieces-vs-whole/{ty}"), "cuts {}", describe_cuts(&cuts));
    // and the two instances are in the same state afterwards
    let tail = tape::bytes(3, 0xC08, bs + 3);
    let (mut ta, mut tb) = (vec![0u8; tail.len()], vec![0u8; tail.len()]);
    let _ = a.try_apply(ApplyKind::Inout, &tail, &mut ta);
    let _ = b.try_apply(ApplyKind::Inout, &tail, &mut tb);
    ensure_eq_bytes!(ta, tb, format!("C08/continuation/{ty}"), "bytes after the cut-up stream, cuts {}", describe_cuts(&cuts));
    Ok(())
}

fn buffered(ctx: &Ctx, t: &mut Tape<'_>, r: &mut Report) -> CheckResult {
    let dir = t.pick(&[Direction::Enc, Direction::Dec]);
    let suite = pick!(ctx, t, r, |_| true);
    let f = suite.buf(dir).unwrap();
    let bs = suite.info.bs;
    let key = gen_key(t, suite);
    let iv = gen_iv(t, bs);
    let len = gen_msg_len(t, bs, 8);
    let data = tape::gen_bytes(t, len);
    let cuts = gen_cuts(t, len, bs, 8);
    let ty = f.type_name();
    r.label("buffered-cfb");
    classify(r, &cuts, bs);
    r.d(|| format!("{ty} key={} iv={} len={len} cuts={} data={}", tape::hex_short(&key), tape::hex_short(&iv), describe_cuts(&cuts), tape::hex_short(&data)));
    let mut a = f.make(Ctor::New, &key, &iv).expect("harness: ctor");
    let mut b = f.make(Ctor::New, &key, &iv).expect("harness: ctor");
    let pieces = run_buf(a.as_mut(), &data, &cuts);
    let whole = run_buf(b.as_mut(), &data, &[len]);
    ensure_eq_bytes!(pieces, whole, format!("C08/pieces-vs-whole/{ty}"), "cuts {}", describe_cuts(&cuts));
    // (the representation of the exported state is not compared: only behaviour is claimed)
    let tail = tape::bytes(3, 0xB0F, bs + 3);
    let ta = run_buf(a.as_mut(), &tail, &[tail.len()]);
    let tb = run_buf(b.as_mut(), &tail, &[tail.len()]);
    ensure_eq_bytes!(ta, tb, format!("C08/continuation/{ty}"), "bytes after the cut-up stream");
    Ok(())
}

fn prefix(ctx: &Ctx, t: &mut Tape<'_>, r: &mut Report) -> CheckResult {
    let mode = t.pick(&[Mode::Cfb, Mode::Cfb8]);
    let dir = t.pick(&[Direction::Enc, Direction::Dec]);
    let suite = pick!(ctx, t, r, |_| true);
    let f = suite.block_mode(mode, dir).unwrap();
    let bs = suite.info.bs;
    let key = gen_key(t, suite);
    let iv = gen_iv(t, bs);
    let len = gen_msg_len(t, bs, 6);
    let ext = 1 + gen_msg_len(t, bs, 3);
    let data = tape::gen_bytes(t, len + ext);
    let (f1, f2) = (t.pick(&[Form::InPlace, Form::B2b, Form::Inout]), t.pick(&[Form::InPlace, Form::B2b, Form::Inout]));
    let ty = f.type_name();
    r.label("oneshot-prefix");
    r.nontrivial = len % bs != 0 && len > 0;
    r.label_if(len % bs != 0, "prefix-ends-inside-block");
    r.d(|| format!("{ty} key={} iv={} len={len} ext={ext} forms={f1:?}/{f2:?} data={}", tape::hex_short(&key), tape::hex_short(&iv), tape::hex_short(&data)));
    let a = f.make(Ctor::New, &key, &iv).expect("harness: ctor");
    let b = f.make(Ctor::New, &key, &iv).expect("harness: ctor");
    let mut short = vec![0xEEu8; len];
    let mut long = vec![0x11u8; len + ext];
    let ra = a.oneshot(OneShot::Async(f1), &data[..len], &mut short).ok_or_else(|| Violation { sig: format!("C08/no-async/{ty}"), msg: "type no longer implements AsyncStreamCipher".into() })?;
    let rb = b.oneshot(OneShot::Async(f2), &data, &mut long).expect("harness: same type");
    ensure!(ra.is_ok() && rb.is_ok(), format!("C08/async-rejected/{ty}"), "one-shot with equal lengths failed");
    ensure_eq_bytes!(short, long[..len], format!("C08/prefix/{ty}"), "output of the {len}-byte message vs prefix of the output of its {}-byte extension", len + ext);
    Ok(())
}
