//! C11 — a keystream never wraps around silently: exhaustion is an error, not reuse.
//!
//! Oracle: success iff the request fits in the 2^w - 1 (BelT: 2^128 - 1) blocks; on failure
//! the buffers are bit-identical and the position unchanged; `remaining_blocks`, when
//! reported, is exact; every byte produced equals the reference keystream at the model
//! position (so reuse of a counter block at a second position cannot go unnoticed).

use crate::common::*;
use crate::model::KsModel;
use crate::{ensure, ensure_eq_bytes};
use vp_base::obj::*;
use vp_base::tape::{self, Tape};

pub const RULE: &str = "tape -> kind (CTR 32/64/128 BE/LE, BelT), cipher config, key, IV, start at block 2^w-1-k (k in 0..4) reached by try_seek or \
set_block_pos+from_core, optional partially consumed block, then <= 6 ops from {apply (len in 0,1,b-1,b,b+1, exactly to the limit, limit+1, several \
blocks; three apply kinds; dirty output), try_seek near/at/after the end, try_current_pos::<T>, remaining_blocks}; second family: \
try_apply_keystream_partial on the cores; third family: core positioned anywhere in the range, remaining_blocks() exact if reported and a fitting request served; oracle = fits/doesn't-fit contract + untouched buffers + position model + reference keystream; \
non-trivial = at least one request that must be refused and one that ends exactly at the limit or later succeeds; distinct by hash of decoded values";

pub const SIG_F2: &str = "seek-into-last-block";
pub const SIG_F3: &str = "partial-remaining-check";

fn limit_blocks(kind: StreamKind) -> u128 {
    match kind {
        StreamKind::Ctr(128, _) | StreamKind::Belt => u128::MAX,
        StreamKind::Ctr(w, _) => (1u128 << w) - 1,
        StreamKind::Ofb => unreachable!("harness: OFB has no limit"),
    }
}

/// F2: seeking into block 2^w-1 with a non-zero byte offset succeeds and wraps the counter.
pub fn probe_f2(ctx: &Ctx) -> Option<String> {
    let suite = ctx.suite_named("Toy8x1")?;
    let f = suite.stream(StreamKind::Ctr(32, true))?;
    let key = [1u8; 16];
    let iv = [2u8; 8];
    let mut s = f.make(Ctor::New, &key, &iv).ok()?;
    let p = ((1u128 << 32) - 1) * 8 + 3;
    if s.try_seek(NumTy::U64, p)? != Ok(()) {
        return None;
    }
    let data = [0u8; 16];
    let mut o = [0u8; 16];
    if s.try_apply(ApplyKind::Inout, &data, &mut o).is_err() {
        return None;
    }
    let mut z = f.make(Ctor::New, &key, &iv).ok()?;
    let mut o0 = [0u8; 24];
    z.try_apply(ApplyKind::Inout, &[0u8; 24], &mut o0).ok()?;
    Some(format!(
        "Ctr32BE<Toy8x1>: try_seek({p}) -> Ok, get_block_pos()={:?}, 16 further bytes accepted; bytes 5.. equal keystream bytes 0..: {}",
        s.core_block_pos(),
        o[5..] == o0[..11]
    ))
}

/// F3: `try_apply_keystream_partial` uses `%` for the block count and never refuses whole blocks.
pub fn probe_f3(ctx: &Ctx) -> Option<String> {
    let suite = ctx.suite_named("Toy8x1")?;
    let f = suite.stream(StreamKind::Ctr(32, true))?;
    let mut c = f.make_core(Ctor::New, &[1u8; 16], &[2u8; 8]).ok()?;
    c.set_block_pos((1u128 << 32) - 2)?; // one block remaining
    let data = [0u8; 24];
    let mut o = [0u8; 24];
    match c.try_apply_partial(&data, &mut o) {
        Ok(()) => Some("CtrCore32BE<Toy8x1> with 1 block remaining: try_apply_keystream_partial of 3 blocks -> Ok".into()),
        Err(_) => None,
    }
}

pub fn check(ctx: &Ctx, t: &mut Tape<'_>, r: &mut Report) -> CheckResult {
    match t.byte() {
        0..=39 => partial_on_core(ctx, t, r),
        40..=63 => remaining_anywhere(ctx, t, r),
        _ => wrapper_history(ctx, t, r),
    }
}

fn gen_kind_iv<'a>(ctx: &'a Ctx, t: &mut Tape<'_>) -> Option<(StreamKind, &'a Suite, Vec<u8>, Vec<u8>)> {
    let kind = t.pick(&STREAM_KINDS_ALL[..7]);
    let suite = ctx.pick_suite(t, |s| s.has_stream(kind))?;
    let bs = suite.info.bs;
    let key = gen_key(t, suite);
    let c = (suite.keyed)(&key);
    let iv = gen_stream_iv(t, kind, bs, c.as_ref(), suite.info.has_dec);
    Some((kind, suite, key, iv))
}

fn wrapper_history(ctx: &Ctx, t: &mut Tape<'_>, r: &mut Report) -> CheckResult {
    let Some((kind, suite, key, iv)) = gen_kind_iv(ctx, t) else {
        r.label("config-not-in-this-build");
        return Ok(());
    };
    let f = suite.stream(kind).unwrap();
    let bs = suite.info.bs;
    let w = kind.width().unwrap();
    let lim = limit_blocks(kind);
    let ty = f.type_name();
    let c = (suite.keyed)(&key);
    let model = KsModel::new(c.as_ref(), kind, &iv);
    let k = t.idx(5) as u128;
    let off = if k >= 1 && t.chance(128) { t.idx(bs) } else { 0 };
    let start = Pos { blk: lim - k, off };
    let reach = if w < 128 && t.chance(128) {
        let p = start.bytes(bs).unwrap();
        let tys = seek_types_for(p);
        Reach::Seek(tys[t.idx(tys.len())])
    } else {
        let _ = t.byte();
        Reach::SetBlockPos
    };
    let mut hist = vec![format!("start=(2^{w}-1-{k}, {off}) via {reach:?}")];
    let mut obj = position_stream(f, &model, &key, &iv, start, bs, reach, Ctor::New, "C11")?;
    let mut q = start;
    let nops = 1 + t.idx(6);
    let (mut refused, mut exact_or_later_ok) = (0, false);
    // true after a seek into the region of known finding F2: the object's state is undefined there
    let mut lost = false;
    for i in 0..6 {
        // fixed 12-byte records
        let opk = t.byte();
        let class = t.byte();
        let a = t.u32();
        let tyb = t.byte();
        let ak = ApplyKind::ALL[t.idx(3)];
        let pre = gen_prefill_kind(t);
        let j = t.idx(bs);
        let _spare = t.u16();
        if i >= nops {
            continue;
        }
        if lost && !(140..=179).contains(&opk) {
            // only a seek can re-establish a defined position
            r.excluded_known += 1;
            continue;
        }
        // bytes left before the limit (small here by construction)
        let left_blocks = lim - q.blk; // >= 0
        let left_bytes: u128 = left_blocks.saturating_mul(bs as u128).saturating_sub(q.off as u128);
        match opk {
            0..=139 => {
                let n: usize = match class {
                    0..=19 => 0,
                    20..=49 => 1,
                    50..=74 => bs - 1,
                    75..=99 => bs,
                    100..=124 => bs + 1,
                    125..=164 => left_bytes.min(6 * bs as u128) as usize,           // exactly up to the limit (if near)
                    165..=204 => (left_bytes.min(6 * bs as u128) as usize) + 1,     // one byte too many
                    205..=229 => (left_bytes.min(6 * bs as u128) as usize) + bs,    // a block too many
                    _ => 2 * bs + j,
                };
                let ok = fits(q, n, bs, lim);
                let data = tape::bytes(3, a ^ i as u32, n);
                hist.push(format!("apply<{ak:?}>({n}){}", if ok { "" } else { "!" }));
                let mut o = prefill(pre.0, pre.1, &data);
                let before = if ak == ApplyKind::InPlace { data.clone() } else { o.clone() };
                let res = obj.try_apply(ak, &data, &mut o);
                if ok {
                    ensure!(res.is_ok(), format!("C11/in-range-request-refused/{ty}"), "{n} bytes at (block 2^{w}-1-{}, offset {}) fit before the limit but were refused [{}]", lim - q.blk, q.off, hist.join(" "));
                    let want = model.apply_at(q.blk, q.off, &data);
                    ensure_eq_bytes!(o, want, format!("C11/keystream-at-position/{ty}"), "{n} bytes at (block 2^{w}-1-{}, offset {}) [{}]", lim - q.blk, q.off, hist.join(" "));
                    q = q.advance(n, bs).unwrap();
                    if n > 0 && (q.blk == lim || refused > 0) {
                        exact_or_later_ok = true;
                    }
                    r.label_if(q.blk == lim && n > 0, "ends-exactly-at-limit");
                } else {
                    ensure!(res.is_err(), format!("C11/exhaustion-not-reported/{ty}"), "{n} bytes at (block 2^{w}-1-{}, offset {}) need more than the 2^{w}-1 available blocks but the call succeeded [{}]", lim - q.blk, q.off, hist.join(" "));
                    ensure_eq_bytes!(o, before, format!("C11/buffer-modified-on-error/{ty}"), "refused {ak:?} request of {n} bytes modified the caller's buffer [{}]", hist.join(" "));
                    refused += 1;
                }
            }
            140..=179 if w < 128 => {
                // seek near / at / after the end
                let endb = lim * bs as u128;
                let (p, expect_ok, f2) = match class {
                    0..=79 => {
                        let back = (a as u128 % (4 * bs as u128 + 1)).min(endb);
                        (endb - back, true, false)
                    }
                    80..=119 => (endb, true, false),
                    120..=199 => (endb + 1 + j as u128 % (bs as u128 - 1).max(1), false, true),
                    _ => (endb + bs as u128 + a as u128 % (1 << 16), false, false),
                };
                let f2 = f2 && bs > 1 && p < endb + bs as u128;
                if class >= 120 && class <= 199 && !f2 {
                    continue;
                }
                if f2 && ctx.known(SIG_F2) {
                    // known finding: the call is made but nothing is concluded from it or from what follows,
                    // until a later seek to a valid position re-establishes a defined state
                    r.excluded_known += 1;
                    r.label("excluded-F2");
                    let tys = seek_types_for(p);
                    let nt = tys[(tyb as usize * tys.len()) >> 8];
                    let _ = obj.try_seek(nt, p);
                    lost = true;
                    hist.push(format!("seek<{nt:?}>({p}) [known finding {SIG_F2}: state undefined until the next valid seek]"));
                    continue;
                }
                let tys = seek_types_for(p);
                let nt = tys[(tyb as usize * tys.len()) >> 8];
                hist.push(format!("seek<{nt:?}>({p}){}", if expect_ok { "" } else { "!" }));
                let res = obj.try_seek(nt, p).ok_or_else(|| Violation { sig: format!("C11/not-seekable/{ty}"), msg: "type no longer implements StreamCipherSeek".into() })?;
                if expect_ok {
                    ensure!(res.is_ok(), format!("C11/seek-rejected/{ty}"), "try_seek({p}) inside [0, end] failed [{}]", hist.join(" "));
                    q = Pos::from_bytes(p, bs);
                    r.label_if(lost, "valid-seek-after-F2-region");
                    lost = false;
                } else if f2 {
                    // the position lies in keystream block 2^w-1, which does not exist: the call has to
                    // fail, or nothing may be produced from there
                    if res.is_ok() {
                        let mut o = [0u8; 1];
                        let r2 = obj.try_apply(ApplyKind::Inout, &[0u8; 1], &mut o);
                        ensure!(r2.is_err(), format!("C11/{SIG_F2}/{ty}"), "try_seek({p}) into block 2^{w}-1 (offset {}) succeeded and a byte was produced from there [{}]", p % bs as u128, hist.join(" "));
                    }
                    // state after such a seek is unspecified; stop this history here
                    r.label("seek-into-last-block-checked");
                    r.d(|| format!("{ty} key={} iv={} {}", tape::hex_short(&key), tape::hex_short(&iv), hist.join(" ")));
                    return Ok(());
                } else {
                    ensure!(res.is_err(), format!("C11/seek-beyond-range-accepted/{ty}"), "try_seek({p}) beyond the counter range succeeded [{}]", hist.join(" "));
                }
            }
            180..=219 => {
                let nt = NumTy::ALL[(tyb as usize * 5) >> 8];
                hist.push(format!("pos<{nt:?}>"));
                check_reported_pos(obj.try_current_pos(nt), nt, q, bs, "C11", &ty).map_err(|mut v| {
                    v.msg = format!("{} [{}]", v.msg, hist.join(" "));
                    v
                })?;
            }
            _ => {
                hist.push("remaining".into());
                if let Some(v) = obj.core_remaining() {
                    let want = lim - q.blocks_generated().min(lim);
                    ensure!(v as u128 == want, format!("C11/remaining-inexact/{ty}"), "remaining_blocks() = {v}, but {want} of the 2^{w}-1 blocks are left at (block 2^{w}-1-{}, offset {}) [{}]", lim - q.blk, q.off, hist.join(" "));
                    r.label("remaining-reported");
                }
            }
        }
    }
    if lost {
        r.d(|| format!("{ty} key={} iv={} {}", tape::hex_short(&key), tape::hex_short(&iv), hist.join(" ")));
        return Ok(());
    }
    // closing invariants: the position is still the model's, and one more byte is refused iff at the limit
    if let Some(qb) = q.bytes(bs) {
        let _ = qb;
        check_reported_pos(obj.try_current_pos(NumTy::U128), NumTy::U128, q, bs, "C11", &ty).map_err(|mut v| {
            v.msg = format!("{} [final; {}]", v.msg, hist.join(" "));
            v
        })?;
    }
    let ok1 = fits(q, 1, bs, lim);
    let mut o = [0x33u8; 1];
    let res = obj.try_apply(ApplyKind::Inout, &[0x77u8; 1], &mut o);
    if ok1 {
        ensure!(res.is_ok(), format!("C11/in-range-request-refused/{ty}"), "one more byte at (block 2^{w}-1-{}, offset {}) was refused [{}]", lim - q.blk, q.off, hist.join(" "));
        let want = model.apply_at(q.blk, q.off, &[0x77u8; 1]);
        ensure_eq_bytes!(o, want, format!("C11/keystream-at-position/{ty}"), "closing byte [{}]", hist.join(" "));
    } else {
        ensure!(res.is_err(), format!("C11/exhaustion-not-reported/{ty}"), "a byte beyond the last keystream block was produced [{}]", hist.join(" "));
        ensure!(o == [0x33u8; 1], format!("C11/buffer-modified-on-error/{ty}"), "refused request modified the output buffer");
        refused += 1;
    }
    r.nontrivial = refused >= 1 && exact_or_later_ok;
    r.label_if(refused >= 1, "refused>=1");
    r.label_if(off != 0, "partially-consumed-block");
    r.label_if(matches!(reach, Reach::Seek(_)), "start-via-seek");
    r.d(|| format!("{ty} key={} iv={} {}", tape::hex_short(&key), tape::hex_short(&iv), hist.join(" ")));
    Ok(())
}

fn partial_on_core(ctx: &Ctx, t: &mut Tape<'_>, r: &mut Report) -> CheckResult {
    let Some((kind, suite, key, iv)) = gen_kind_iv(ctx, t) else {
        r.label("config-not-in-this-build");
        return Ok(());
    };
    let f = suite.stream(kind).unwrap();
    let bs = suite.info.bs;
    let w = kind.width().unwrap();
    let lim = limit_blocks(kind);
    let ty = f.core_type_name();
    let k = t.idx(5) as u128;
    let class = t.byte();
    let j = t.idx(bs);
    let n = match class {
        0..=29 => 0,
        30..=69 => j,
        70..=119 => (k as usize) * bs,
        120..=159 => (k as usize) * bs + 1,
        160..=199 => (k as usize + 1) * bs,
        _ => (k as usize + 2) * bs + j,
    };
    let data = tape::gen_bytes(t, n);
    r.label("partial-on-core");
    r.d(|| format!("{ty} key={} iv={} core at block 2^{w}-1-{k}: try_apply_keystream_partial({n} bytes)", tape::hex_short(&key), tape::hex_short(&iv)));
    let q = Pos { blk: lim - k, off: 0 };
    let ok = fits(q, n, bs, lim);
    if ctx.known(SIG_F3) {
        // known finding: cipher's provided method counts `len % bs (+1)` blocks instead of ceil(len / bs).
        // Only the requests on which that formula gives the wrong verdict are excluded; everywhere else
        // (right verdict) output, refusal and untouched buffers are checked as usual.
        let upstream_blocks = if n % bs == 0 { n % bs } else { n % bs + 1 };
        let upstream_refuses = (upstream_blocks as u128) > k;
        if upstream_refuses == ok {
            r.excluded_known += 1;
            r.label("excluded-F3");
            return Ok(());
        }
    }
    let c = (suite.keyed)(&key);
    let model = KsModel::new(c.as_ref(), kind, &iv);
    let mut core = f.make_core(Ctor::New, &key, &iv).expect("harness: ctor");
    core.set_block_pos(lim - k).ok_or_else(|| Violation { sig: format!("C11/not-seekable/{ty}"), msg: "core no longer seekable".into() })?;
    let mut o = vec![0xC3u8; n];
    let res = core.try_apply_partial(&data, &mut o);
    r.nontrivial = !ok || n as u128 == k * bs as u128;
    if ok {
        ensure!(res.is_ok(), format!("C11/in-range-request-refused/{ty}"), "try_apply_keystream_partial({n}) with {k} blocks left was refused");
        let want = model.apply_at(q.blk, 0, &data);
        ensure_eq_bytes!(o, want, format!("C11/keystream-at-position/{ty}"), "try_apply_keystream_partial({n}) with {k} blocks left");
    } else {
        ensure!(res.is_err(), format!("C11/{SIG_F3}/{ty}"), "try_apply_keystream_partial({n}) with only {k} blocks left succeeded");
        ensure!(o.iter().all(|b| *b == 0xC3), format!("C11/buffer-modified-on-error/{ty}"), "refused request modified the output buffer");
    }
    Ok(())
}

/// The remaining-blocks report is exact wherever the instance stands - not only next to the limit -
/// and a request that fits is served there (the byte-level wrapper consults that report before every
/// request).
fn remaining_anywhere(ctx: &Ctx, t: &mut Tape<'_>, r: &mut Report) -> CheckResult {
    let Some((kind, suite, key, iv)) = gen_kind_iv(ctx, t) else {
        r.label("config-not-in-this-build");
        return Ok(());
    };
    let f = suite.stream(kind).unwrap();
    let bs = suite.info.bs;
    let w = kind.width().unwrap();
    let lim = limit_blocks(kind);
    let ty = f.core_type_name();
    // anywhere in the range (boundaries of bytes and powers of two, random), optionally with the low
    // 64 bits of the position just below a wrap; at least 8 blocks before the limit
    let mut blk = gen_block_index(t, w, 8);
    let low_wrap = t.chance(96);
    let j = t.idx(6) as u128;
    if low_wrap && w > 64 && blk >> 64 != 0 {
        blk = ((blk | u64::MAX as u128) - j).min(lim - 8);
    }
    let nblocks = 1 + t.idx(4);
    let tail = t.idx(bs);
    r.label("remaining-anywhere");
    r.label_if(low_wrap && w > 64, "low-word-near-wrap");
    r.nontrivial = blk >= 1 << 16;
    r.d(|| format!("{ty} key={} iv={} core at block {blk}: remaining_blocks(), then {nblocks} blocks + {tail} bytes", tape::hex_short(&key), tape::hex_short(&iv)));
    let c = (suite.keyed)(&key);
    let model = KsModel::new(c.as_ref(), kind, &iv);
    let mut core = f.make_core(Ctor::New, &key, &iv).expect("harness: ctor");
    core.set_block_pos(blk).ok_or_else(|| Violation { sig: format!("C11/not-seekable/{ty}"), msg: "core no longer seekable".into() })?;
    let truth = lim - blk;
    if let Some(x) = core.remaining_blocks() {
        ensure!(x as u128 == truth, format!("C11/remaining-inexact/{ty}"), "remaining_blocks() = {x} at block {blk}, but {truth} blocks are left");
    }
    let data = tape::bytes(3, blk as u32 ^ 0x5EED, nblocks * bs + tail);
    let mut s = core.into_wrapper();
    let mut o = vec![0xC3u8; data.len()];
    ensure!(s.try_apply(ApplyKind::Inout, &data, &mut o).is_ok(), format!("C11/in-range-request-refused/{ty}"), "{} bytes at block {blk} ({truth} blocks left) were refused", data.len());
    ensure_eq_bytes!(o, model.apply_at(blk, 0, &data), format!("C11/keystream-at-position/{ty}"), "{} bytes at block {blk}", data.len());
    Ok(())
}
