//! C16 — clones and separate instances are independent, deterministic values.
//!
//! Oracle (history replay): after history `h1`, a clone and the original driven through
//! `h2` / `h3` in a generated interleaving must produce exactly what two fresh instances
//! replaying `h1;h2` and `h1;h3` sequentially produce (outputs *and* reported state).
//! The same for two unrelated live instances.

use crate::common::*;
use crate::{ensure, pick};
use vp_base::obj::*;
use vp_base::tape::{self, Tape};

pub const RULE: &str = "tape -> family (block modes | buffered CFB | byte-level stream ciphers incl. seek/position ops | stream cores | CTS), cipher \
config, key, IV, history h1 (0..3 ops), clone (or a second unrelated instance), histories h2 and h3 (1..3 ops each) applied in a generated \
interleaving; oracle = sequential replay on fresh instances, comparing outputs, iv_state/get_state, positions and remaining_blocks after every op; \
non-trivial = h1 leaves a partially consumed block or a non-initial chaining value, and h2 != h3 both non-empty; distinct by hash of decoded values";

enum M {
    Bm(Box<dyn BlockModeObj>),
    Buf(Box<dyn BufCfbObj>),
    St(Box<dyn StreamObj>),
    Core(Box<dyn StreamCoreObj>),
}

#[derive(Clone)]
enum Op {
    Blocks(CallKind, Vec<u8>, [u8; 6], (u8, u32)),
    Bytes(Vec<u8>),
    S(SOp),
    CoreBlocks(CoreKind, Vec<u8>, [u8; 6]),
}

/// `alt` = the sequential replay: output buffers start with *different* contents than in the
/// live run (what an output buffer held before a call is not part of "cipher, IV and the
/// sequence of calls", so it must not show in the results).
fn exec(m: &mut M, op: &Op, alt: bool) -> String {
    match (m, op) {
        (M::Bm(o), Op::Blocks(k, d, sb, pre)) => {
            let mut out = if alt { prefill((pre.0 + 1) % 4, pre.1 ^ 0x5A5A_A5A5, d) } else { prefill(pre.0, pre.1, d) };
            let res = o.process(*k, d, &mut out, &mut Sched::new(*sb));
            // (a refused call leaves the buffer as it was, which differs between the two runs by construction)
            let shown = if res.is_ok() { tape::hex(&out) } else { "-".into() };
            format!("{res:?} out={shown} st={:?}", o.iv_state().map(|s| tape::hex(&s)))
        }
        (M::Buf(o), Op::Bytes(d)) => {
            let mut b = d.clone();
            o.process(&mut b);
            let (s, p) = o.get_state();
            format!("out={} st=({},{p})", tape::hex(&b), tape::hex(&s))
        }
        (M::St(o), Op::S(s)) => {
            let s = match s {
                SOp::Apply(k, d, pre) if alt => &SOp::Apply(*k, d.clone(), ((pre.0 + 1) % 4, pre.1 ^ 0x5A5A_A5A5)),
                other => other,
            };
            let res = match exec_sop(o.as_mut(), s) {
                SRes::Apply(Err(e), _) => SRes::Apply(Err(e), Vec::new()),
                other => other,
            };
            format!("{res:?} bp={:?} rem={:?} st={:?}", o.core_block_pos(), o.core_remaining(), o.core_iv_state().map(|s| tape::hex(&s)))
        }
        (M::Core(o), Op::CoreBlocks(k, d, sb)) => {
            let mut out = vec![if alt { 0xDEu8 } else { 0x21u8 }; d.len()];
            o.process(*k, d, &mut out, &mut Sched::new(*sb));
            format!("out={} bp={:?} rem={:?} st={:?}", tape::hex(&out), o.get_block_pos(), o.remaining_blocks(), o.iv_state().map(|s| tape::hex(&s)))
        }
        _ => panic!("harness: op does not match machine"),
    }
}

fn clone_m(m: &M) -> Option<M> {
    Some(match m {
        M::Bm(o) => M::Bm(o.clone_box()?),
        M::Buf(o) => M::Buf(o.clone_box()?),
        M::St(o) => M::St(o.clone_box()?),
        M::Core(o) => M::Core(o.clone_box()?),
    })
}

/// `Clone::clone_from` onto an existing object of the same type
fn assign_m(dst: &mut M, src: &M) -> Option<()> {
    match (dst, src) {
        (M::Bm(d), M::Bm(s)) => d.assign_from(s.as_any()),
        (M::Buf(d), M::Buf(s)) => d.assign_from(s.as_any()),
        (M::St(d), M::St(s)) => d.assign_from(s.as_any()),
        (M::Core(d), M::Core(s)) => d.assign_from(s.as_any()),
        _ => None,
    }
}

fn describe_op(op: &Op) -> String {
    match op {
        Op::Blocks(k, d, _, _) => format!("{k:?}({}B)", d.len()),
        Op::Bytes(d) => format!("bytes({})", d.len()),
        Op::S(s) => describe_sop(s),
        Op::CoreBlocks(k, d, _) => format!("{k:?}({}B)", d.len()),
    }
}

pub fn check(ctx: &Ctx, t: &mut Tape<'_>, r: &mut Report) -> CheckResult {
    let family = t.pick(&[0u8, 0, 1, 2, 2, 3, 4]);
    if family == 4 {
        return cts(ctx, t, r);
    }
    let suite = pick!(ctx, t, r, |_| true);
    let bs = suite.info.bs;
    let par = suite.info.par;
    let key = gen_key(t, suite);
    let key2 = gen_key(t, suite);
    let unrelated = t.chance(64);
    // factory closure + op generator per family
    let sel = t.byte() as usize;
    let iv_len;
    let ty: String;
    let unit;
    type Mk<'a> = Box<dyn Fn(&[u8], &[u8]) -> M + 'a>;
    let mk: Mk<'_> = match family {
        0 => {
            let modes = modes_for(suite);
            let (mode, dir) = modes[(sel * modes.len()) >> 8];
            let f = suite.block_mode(mode, dir).unwrap();
            iv_len = f.iv_len();
            ty = f.type_name();
            unit = f.unit();
            Box::new(move |k, iv| M::Bm(f.make(Ctor::New, k, iv).expect("harness: ctor")))
        }
        1 => {
            let f = &suite.buf_cfb[(sel * suite.buf_cfb.len()) >> 8];
            iv_len = bs;
            ty = f.type_name();
            unit = 1;
            Box::new(move |k, iv| M::Buf(f.make(Ctor::New, k, iv).expect("harness: ctor")))
        }
        2 => {
            let f = &suite.streams[(sel * suite.streams.len()) >> 8];
            iv_len = bs;
            ty = f.type_name();
            unit = 1;
            Box::new(move |k, iv| M::St(f.make(Ctor::New, k, iv).expect("harness: ctor")))
        }
        _ => {
            let f = &suite.streams[(sel * suite.streams.len()) >> 8];
            iv_len = bs;
            ty = f.core_type_name();
            unit = bs;
            Box::new(move |k, iv| M::Core(f.make_core(Ctor::New, k, iv).expect("harness: ctor")))
        }
    };
    let iv = gen_iv(t, iv_len);
    let iv2 = gen_iv(t, iv_len);
    let seekable = family == 2 && suite.streams[(sel * suite.streams.len()) >> 8].kind().seekable();
    let gen_op = |t: &mut Tape<'_>, salt: u32| -> Op {
        // fixed 12-byte records
        let a = t.byte();
        let b = t.byte();
        let seed = t.u32();
        let mut sb = [0u8; 6];
        for x in sb.iter_mut() {
            *x = t.byte();
        }
        match family {
            0 => {
                let n = if unit == 1 { (a as usize * (2 * bs + 1)) >> 8 } else { [0, 1, 1, 2, par, par + 1, 2 * par + 1, 3][(a as usize * 8) >> 8] };
                Op::Blocks(CALL_KIND_TABLE[(b as usize * CALL_KIND_TABLE.len()) >> 8], tape::bytes(3, seed ^ salt, n * unit), sb, (b % 4, seed))
            }
            1 => Op::Bytes(tape::bytes(3, seed ^ salt, (a as usize * (2 * bs + 2)) >> 8)),
            2 => match b {
                0..=159 => Op::S(SOp::Apply(ApplyKind::ALL[(sb[0] as usize * 3) >> 8], tape::bytes(3, seed ^ salt, (a as usize * (2 * bs + 2)) >> 8), (sb[1] % 4, seed))),
                160..=199 if seekable => Op::S(SOp::Seek(NumTy::U64, (seed as u128) % (8 * bs as u128))),
                200..=229 => Op::S(SOp::Pos(NumTy::ALL[(sb[2] as usize * 5) >> 8])),
                _ => Op::S(SOp::Remaining),
            },
            _ => {
                let n = [0, 1, 1, 2, par, par + 1, 2 * par + 1, 3][(a as usize * 8) >> 8];
                Op::CoreBlocks(CoreKind::ALL[(b as usize * CoreKind::ALL.len()) >> 8], tape::bytes(3, seed ^ salt, n * bs), sb)
            }
        }
    };
    let n1 = t.idx(4);
    let n2 = 1 + t.idx(3);
    let n3 = 1 + t.idx(3);
    let h1: Vec<Op> = (0..3).map(|i| gen_op(t, i)).take(n1).collect();
    let h2: Vec<Op> = (0..3).map(|i| gen_op(t, 10 + i)).collect::<Vec<_>>().into_iter().take(n2).collect();
    let h3: Vec<Op> = (0..3).map(|i| gen_op(t, 20 + i)).collect::<Vec<_>>().into_iter().take(n3).collect();
    let order = t.byte();
    // (read last so that older tapes keep their meaning)
    let via_clone_from = t.chance(80);
    r.label(match family {
        0 => "block-mode",
        1 => "buffered-cfb",
        2 => "stream",
        _ => "stream-core",
    });
    r.label_if(unrelated, "two-unrelated-instances");
    let d1 = h1.iter().map(describe_op).collect::<Vec<_>>().join(",");
    let d2 = h2.iter().map(describe_op).collect::<Vec<_>>().join(",");
    let d3 = h3.iter().map(describe_op).collect::<Vec<_>>().join(",");
    r.d(|| format!("{ty} {} key={} iv={} h1=[{d1}] h2=[{d2}] h3=[{d3}] order={order:#010b}", if unrelated { "two instances" } else { "clone" }, tape::hex_short(&key), tape::hex_short(&iv)));
    let h1_bytes: usize = h1.iter().map(|o| match o {
        Op::Blocks(_, d, _, _) | Op::Bytes(d) | Op::CoreBlocks(_, d, _) => d.len(),
        Op::S(SOp::Apply(_, d, _)) => d.len(),
        Op::S(SOp::Seek(_, p)) => *p as usize,
        _ => 0,
    }).sum();
    r.nontrivial = h1_bytes > 0 && d2 != d3;
    r.label_if(h1_bytes % bs != 0, "h1-leaves-partial-block");

    // live objects
    let (mut x, mut y) = if unrelated {
        let mut x = mk(&key, &iv);
        let mut y = mk(&key2, &iv2);
        for op in &h1 {
            exec(&mut x, op, false);
            exec(&mut y, op, false);
        }
        (x, y)
    } else {
        let mut x = mk(&key, &iv);
        for op in &h1 {
            exec(&mut x, op, false);
        }
        let Some(mut y) = clone_m(&x) else {
            r.label("type-not-cloneable");
            r.nontrivial = false;
            return Ok(());
        };
        if via_clone_from {
            // `clone_from` onto a live object with a different key, IV and history
            let mut z = mk(&key2, &iv2);
            if let Some(op) = h1.first() {
                exec(&mut z, op, false);
            }
            if assign_m(&mut z, &x).is_some() {
                r.label("clone_from");
                y = z;
            }
        }
        (x, y)
    };
    // interleave
    let (mut i2, mut i3) = (0, 0);
    let mut live2 = Vec::new();
    let mut live3 = Vec::new();
    let mut bit = 0;
    while i2 < h2.len() || i3 < h3.len() {
        let take_x = if i2 >= h2.len() { false } else if i3 >= h3.len() { true } else { (order >> (bit % 8)) & 1 == 0 };
        bit += 1;
        if take_x {
            live2.push(exec(&mut x, &h2[i2], false));
            i2 += 1;
        } else {
            live3.push(exec(&mut y, &h3[i3], false));
            i3 += 1;
        }
    }
    // sequential replays on fresh instances
    let mut fx = mk(&key, &iv);
    let mut fy = if unrelated { mk(&key2, &iv2) } else { mk(&key, &iv) };
    for op in &h1 {
        exec(&mut fx, op, true);
        exec(&mut fy, op, true);
    }
    let seq2: Vec<String> = h2.iter().map(|op| exec(&mut fx, op, true)).collect();
    let seq3: Vec<String> = h3.iter().map(|op| exec(&mut fy, op, true)).collect();
    for (i, (l, s)) in live2.iter().zip(seq2.iter()).enumerate() {
        ensure!(l == s, format!("C16/original-diverges/{ty}"), "op {i} of h2 on the {} after h1=[{d1}] interleaved with h3=[{d3}]: live {l} / replay {s}", if unrelated { "first instance" } else { "original" });
    }
    for (i, (l, s)) in live3.iter().zip(seq3.iter()).enumerate() {
        ensure!(l == s, format!("C16/clone-diverges/{ty}"), "op {i} of h3 on the {} after h1=[{d1}] interleaved with h2=[{d2}]: live {l} / replay {s}", if unrelated { "second instance" } else { "clone" });
    }
    Ok(())
}

fn cts(ctx: &Ctx, t: &mut Tape<'_>, r: &mut Report) -> CheckResult {
    let suite = pick!(ctx, t, r, |s| s.has_cts());
    let v = CtsVariant::ALL[t.idx(6)];
    let f = suite.cts(v).unwrap();
    let bs = suite.info.bs;
    let key = gen_key(t, suite);
    let iv = gen_iv(t, bs);
    let l1 = bs + gen_msg_len(t, bs, 4);
    let l2 = bs + gen_msg_len(t, bs, 4);
    let m1 = tape::gen_bytes(t, l1);
    let m2 = tape::gen_bytes(t, l2);
    let dec1 = t.chance(128);
    let ty = f.type_name();
    r.label("cts");
    r.nontrivial = m1 != m2;
    r.d(|| format!("{ty} clone; original {} {l1} bytes, clone enc {l2} bytes", if dec1 { "dec" } else { "enc" }));
    let a = f.make(Ctor::New, &key, &iv).expect("harness: ctor");
    let Some(b) = a.clone_box() else {
        r.label("type-not-cloneable");
        r.nontrivial = false;
        return Ok(());
    };
    let (mut oa, mut ob) = (vec![0u8; l1], vec![0u8; l2]);
    let ra = if dec1 { a.decrypt(Form::Inout, &m1, &mut oa) } else { a.encrypt(Form::Inout, &m1, &mut oa) };
    let rb = b.encrypt(Form::Inout, &m2, &mut ob);
    let (fa, fb) = (f.make(Ctor::New, &key, &iv).expect("harness: ctor"), f.make(Ctor::New, &key, &iv).expect("harness: ctor"));
    // (the replays write into buffers with different previous contents)
    let (mut wa, mut wb) = (vec![0xA7u8; l1], vec![0x3Cu8; l2]);
    let sa = if dec1 { fa.decrypt(Form::Inout, &m1, &mut wa) } else { fa.encrypt(Form::Inout, &m1, &mut wa) };
    let sb = fb.encrypt(Form::Inout, &m2, &mut wb);
    ensure!(ra == sa && (ra.is_err() || oa == wa), format!("C16/original-diverges/{ty}"), "original after clone differs from a fresh instance");
    ensure!(rb == sb && (rb.is_err() || ob == wb), format!("C16/clone-diverges/{ty}"), "clone differs from a fresh instance");
    Ok(())
}
