//! C14 — alternative front-ends to the same mode are interchangeable.
//!
//! Oracle: differential between front-ends with the same key, IV and message.

use crate::common::*;
use crate::model;
use crate::{ensure, ensure_eq_bytes, pick};
use vp_base::obj::*;
use vp_base::tape::{self, Tape};

pub const RULE: &str = "tape -> pair family (buffered CFB = block-level CFB = one-shot CFB | OfbCore as encryptor = decryptor = keystream core = \
byte-level Ofb | CTR/BelT core block-wise (and apply_keystream_partial) = byte-level cipher | CBC-CS1/2/3 and ECB-CS1/2/3 on whole blocks = plain \
CBC / raw block encryption, CS3 with the last two blocks exchanged | the four constructors), cipher config, key, IV, message; oracle = equality \
between front-ends; non-trivial = >= 2 blocks and a message that is not all zero (CTS: also the one-block class); distinct by hash of decoded values";

pub fn check(ctx: &Ctx, t: &mut Tape<'_>, r: &mut Report) -> CheckResult {
    match t.pick(&[0u8, 1, 2, 3, 3, 4]) {
        0 => cfb_frontends(ctx, t, r),
        1 => ofb_frontends(ctx, t, r),
        2 => core_vs_wrapper(ctx, t, r),
        3 => cts_whole_blocks(ctx, t, r),
        _ => constructors(ctx, t, r),
    }
}

fn cfb_frontends(ctx: &Ctx, t: &mut Tape<'_>, r: &mut Report) -> CheckResult {
    let dir = t.pick(&[Direction::Enc, Direction::Dec]);
    let suite = pick!(ctx, t, r, |_| true);
    let bs = suite.info.bs;
    let key = gen_key(t, suite);
    let iv = gen_iv(t, bs);
    let n = gen_nblocks(t, suite.info.par, 16);
    let extra = if t.chance(128) { t.idx(bs) } else { 0 };
    let data = tape::gen_bytes(t, n * bs + extra);
    let cuts = gen_cuts(t, data.len(), bs, 6);
    let pieces = gen_pieces(t, n, 4, suite.info.par);
    let form = t.pick(&[Form::InPlace, Form::B2b, Form::Inout]);
    let fb = suite.block_mode(Mode::Cfb, dir).unwrap();
    let ty = fb.type_name();
    r.label("cfb");
    r.nontrivial = n >= 2 && data.iter().any(|b| *b != 0);
    r.label_if(extra != 0, "partial-tail");
    r.d(|| format!("CFB {dir:?} over {} key={} iv={} len={} cuts={} pieces=[{}] oneshot={form:?} data={}", suite.info.name, tape::hex_short(&key), tape::hex_short(&iv), data.len(), describe_cuts(&cuts), describe_pieces(&pieces), tape::hex_short(&data)));
    // one-shot over everything
    let one = fb.make(Ctor::New, &key, &iv).expect("harness: ctor");
    let mut o1 = vec![0x42u8; data.len()];
    let res = one.oneshot(OneShot::Async(form), &data, &mut o1).ok_or_else(|| Violation { sig: format!("C14/no-async/{ty}"), msg: "type no longer implements AsyncStreamCipher".into() })?;
    ensure!(res.is_ok(), format!("C14/async-rejected/{ty}"), "equal lengths rejected");
    // buffered over everything
    let mut buf = suite.buf(dir).unwrap().make(Ctor::New, &key, &iv).expect("harness: ctor");
    let o2 = run_buf(buf.as_mut(), &data, &cuts);
    ensure_eq_bytes!(o2, o1, format!("C14/buffered-vs-oneshot/{}", suite.buf(dir).unwrap().type_name()), "cuts {}", describe_cuts(&cuts));
    // block level over the whole blocks
    let mut blk = fb.make(Ctor::New, &key, &iv).expect("harness: ctor");
    let o3 = run_pieces(blk.as_mut(), bs, &data[..n * bs], &pieces, (3, 5)).map_err(|v| with_sig("C14", &ty, v))?.out;
    ensure_eq_bytes!(o3, o1[..n * bs], format!("C14/blocks-vs-oneshot/{ty}"), "pieces [{}]", describe_pieces(&pieces));
    Ok(())
}

fn ofb_frontends(ctx: &Ctx, t: &mut Tape<'_>, r: &mut Report) -> CheckResult {
    let suite = pick!(ctx, t, r, |_| true);
    let bs = suite.info.bs;
    let key = gen_key(t, suite);
    let iv = gen_iv(t, bs);
    let n = gen_nblocks(t, suite.info.par, 16);
    let data = tape::gen_bytes(t, n * bs);
    let p1 = gen_pieces(t, n, 3, suite.info.par);
    let p2 = gen_pieces(t, n, 3, suite.info.par);
    let cuts = gen_cuts(t, n * bs, bs, 5);
    let ck = CoreKind::ALL[t.idx(CoreKind::ALL.len())];
    let f = suite.stream(StreamKind::Ofb).unwrap();
    let ty = f.core_type_name();
    r.label("ofb");
    r.nontrivial = n >= 2 && data.iter().any(|b| *b != 0);
    r.d(|| format!("OFB over {} key={} iv={} n={n} enc=[{}] dec=[{}] core={ck:?} cuts={} data={}", suite.info.name, tape::hex_short(&key), tape::hex_short(&iv), describe_pieces(&p1), describe_pieces(&p2), describe_cuts(&cuts), tape::hex_short(&data)));
    let mut e = suite.block_mode(Mode::Ofb, Direction::Enc).unwrap().make(Ctor::New, &key, &iv).expect("harness: ctor");
    let mut d = suite.block_mode(Mode::Ofb, Direction::Dec).unwrap().make(Ctor::New, &key, &iv).expect("harness: ctor");
    let mut c = f.make_core(Ctor::New, &key, &iv).expect("harness: ctor");
    let mut s = f.make(Ctor::New, &key, &iv).expect("harness: ctor");
    let oe = run_pieces(e.as_mut(), bs, &data, &p1, (1, 0)).map_err(|v| with_sig("C14", &ty, v))?.out;
    let od = run_pieces(d.as_mut(), bs, &data, &p2, (3, 9)).map_err(|v| with_sig("C14", &ty, v))?.out;
    let mut oc = vec![0x17u8; data.len()];
    c.process(ck, &data, &mut oc, &mut Sched::new([2, 1, 3, 0, 1, 2]));
    let os = run_stream(s.as_mut(), &data, &cuts, &[ApplyKind::Inout, ApplyKind::InPlace, ApplyKind::B2b, ApplyKind::Inout, ApplyKind::InPlace], (3, 1)).map_err(|v| with_sig("C14", &ty, v))?;
    ensure_eq_bytes!(od, oe, format!("C14/ofb-dec-vs-enc/{ty}"), "block decryptor vs block encryptor");
    ensure_eq_bytes!(oc, oe, format!("C14/ofb-core-vs-enc/{ty}"), "keystream core ({ck:?}) vs block encryptor");
    ensure_eq_bytes!(os, oe, format!("C14/ofb-stream-vs-enc/{ty}"), "byte-level stream vs block encryptor");
    ensure!(e.iv_state() == d.iv_state() && e.iv_state() == c.iv_state(), format!("C14/ofb-state/{ty}"), "front-ends leave different states");
    Ok(())
}

fn core_vs_wrapper(ctx: &Ctx, t: &mut Tape<'_>, r: &mut Report) -> CheckResult {
    let kind = t.pick(&STREAM_KINDS_ALL[..7]);
    let suite = pick!(ctx, t, r, |s| s.has_stream(kind));
    let f = suite.stream(kind).unwrap();
    let bs = suite.info.bs;
    let key = gen_key(t, suite);
    let c = (suite.keyed)(&key);
    let iv = gen_stream_iv(t, kind, bs, c.as_ref(), suite.info.has_dec);
    let n = gen_nblocks(t, suite.info.par, 16);
    let extra = if t.chance(96) { t.idx(bs) } else { 0 };
    let data = tape::gen_bytes(t, n * bs + extra);
    let cuts = gen_cuts(t, data.len(), bs, 5);
    let ck = CoreKind::ALL[t.idx(CoreKind::ALL.len())];
    let ty = f.core_type_name();
    r.label("core-vs-wrapper");
    r.nontrivial = n >= 2 && data.iter().any(|b| *b != 0);
    r.d(|| format!("{ty} key={} iv={} n={n}+{extra} core={ck:?} cuts={} data={}", tape::hex_short(&key), tape::hex_short(&iv), describe_cuts(&cuts), tape::hex_short(&data)));
    let mut w = f.make(Ctor::New, &key, &iv).expect("harness: ctor");
    let ow = run_stream(w.as_mut(), &data, &cuts, &[ApplyKind::Inout; 5], (3, 2)).map_err(|v| with_sig("C14", &ty, v))?;
    let mut c = f.make_core(Ctor::New, &key, &iv).expect("harness: ctor");
    let mut oc = vec![0x99u8; n * bs];
    c.process(ck, &data[..n * bs], &mut oc, &mut Sched::new([1, 3, 2, 0, 3, 1]));
    ensure_eq_bytes!(oc, ow[..n * bs], format!("C14/core-vs-wrapper/{ty}"), "core driven block-wise ({ck:?}) vs byte-level cipher");
    // apply_keystream_partial on a fresh core (far from exhaustion) handles the partial tail too
    let p = f.make_core(Ctor::New, &key, &iv).expect("harness: ctor");
    let mut op = vec![0x66u8; data.len()];
    ensure!(p.try_apply_partial(&data, &mut op).is_ok(), format!("C14/partial-rejected/{ty}"), "try_apply_keystream_partial far from the end failed");
    ensure_eq_bytes!(op, ow, format!("C14/partial-vs-wrapper/{ty}"), "apply_keystream_partial vs byte-level cipher, {} bytes", data.len());
    Ok(())
}

fn cts_whole_blocks(ctx: &Ctx, t: &mut Tape<'_>, r: &mut Report) -> CheckResult {
    let suite = pick!(ctx, t, r, |s| s.has_cts());
    let v = CtsVariant::ALL[t.idx(6)];
    let f = suite.cts(v).unwrap();
    let bs = suite.info.bs;
    let key = gen_key(t, suite);
    let iv = gen_iv(t, bs);
    let k = 1 + gen_nblocks(t, suite.info.par, 23);
    let data = tape::gen_bytes(t, k * bs);
    let decrypt = t.chance(128);
    let form = t.pick(&[Form::InPlace, Form::B2b, Form::Inout]);
    let ty = f.type_name();
    r.label("cts-whole-blocks");
    r.nontrivial = (k >= 2 && data.iter().any(|b| *b != 0)) || k == 1;
    r.label_if(k == 1, "one-block");
    r.d(|| format!("{ty} {} k={k} {form:?} key={} iv={} data={}", if decrypt { "dec" } else { "enc" }, tape::hex_short(&key), tape::hex_short(&iv), tape::hex_short(&data)));
    let obj = f.make(Ctor::New, &key, &iv).expect("harness: ctor");
    let mut out = vec![0x3Cu8; data.len()];
    let res = if decrypt { obj.decrypt(form, &data, &mut out) } else { obj.encrypt(form, &data, &mut out) };
    ensure!(res.is_ok(), format!("C14/cts-rejected/{ty}"), "{k} whole blocks rejected");
    // the plain mode: the repository's own cbc crate for CBC, raw single-block calls for ECB
    let swap_last_two = |buf: &mut Vec<u8>| {
        if k >= 2 {
            let (a, b) = ((k - 2) * bs, (k - 1) * bs);
            for i in 0..bs {
                buf.swap(a + i, b + i);
            }
        }
    };
    let c = (suite.keyed)(&key);
    let want = if v.is_cbc() {
        let dir = if decrypt { Direction::Dec } else { Direction::Enc };
        let plain = suite.block_mode(Mode::Cbc, dir).unwrap();
        let mut m = plain.make(Ctor::New, &key, &iv).expect("harness: ctor");
        if decrypt {
            // CS3 ciphertext has its last two blocks exchanged: undo before plain CBC decryption
            let mut inp = data.clone();
            if v.cs() == 3 {
                swap_last_two(&mut inp);
            }
            run_simple(m.as_mut(), &inp)
        } else {
            let mut o = run_simple(m.as_mut(), &data);
            if v.cs() == 3 {
                swap_last_two(&mut o);
            }
            o
        }
    } else if decrypt {
        let mut inp = data.clone();
        if v.cs() == 3 {
            swap_last_two(&mut inp);
        }
        model::ecb_dec(c.as_ref(), &inp)
    } else {
        let mut o = model::ecb_enc(c.as_ref(), &data);
        if v.cs() == 3 {
            swap_last_two(&mut o);
        }
        o
    };
    ensure_eq_bytes!(out, want, format!("C14/cts-vs-plain/{ty}"), "{k} whole blocks, {}", if v.is_cbc() { "vs cbc crate" } else { "vs raw block calls" });
    Ok(())
}

fn constructors(ctx: &Ctx, t: &mut Tape<'_>, r: &mut Report) -> CheckResult {
    let suite = pick!(ctx, t, r, |_| true);
    let bs = suite.info.bs;
    let key = gen_key(t, suite);
    let (c1, c2) = (ctor_pick(t), ctor_pick(t));
    let family = t.idx(4);
    let n = 2 + gen_nblocks(t, suite.info.par, 8);
    r.label("constructors");
    r.nontrivial = c1 != c2;
    match family {
        0 => {
            let modes = modes_for(suite);
            let (mode, dir) = modes[t.idx(modes.len())];
            let f = suite.block_mode(mode, dir).unwrap();
            let iv = gen_iv(t, f.iv_len());
            let data = tape::gen_bytes(t, n * f.unit());
            let ty = f.type_name();
            r.d(|| format!("{ty} {c1:?} vs {c2:?} key={} iv={} data={}", tape::hex_short(&key), tape::hex_short(&iv), tape::hex_short(&data)));
            let mut a = f.make(c1, &key, &iv).map_err(|_| Violation { sig: format!("C14/ctor-rejected/{ty}"), msg: format!("{c1:?} rejected correct lengths") })?;
            let mut b = f.make(c2, &key, &iv).map_err(|_| Violation { sig: format!("C14/ctor-rejected/{ty}"), msg: format!("{c2:?} rejected correct lengths") })?;
            ensure!(a.iv_state() == b.iv_state(), format!("C14/ctor-state/{ty}"), "{c1:?} and {c2:?} give different initial states");
            let (oa, ob) = (run_simple(a.as_mut(), &data), run_simple(b.as_mut(), &data));
            ensure_eq_bytes!(oa, ob, format!("C14/ctor-output/{ty}"), "{c1:?} vs {c2:?}");
        }
        1 => {
            let f = &suite.buf_cfb[t.idx(suite.buf_cfb.len())];
            let iv = gen_iv(t, bs);
            let data = tape::gen_bytes(t, n * bs + 1);
            let ty = f.type_name();
            r.d(|| format!("{ty} {c1:?} vs {c2:?}"));
            let mut a = f.make(c1, &key, &iv).map_err(|_| Violation { sig: format!("C14/ctor-rejected/{ty}"), msg: format!("{c1:?} rejected correct lengths") })?;
            let mut b = f.make(c2, &key, &iv).map_err(|_| Violation { sig: format!("C14/ctor-rejected/{ty}"), msg: format!("{c2:?} rejected correct lengths") })?;
            let (oa, ob) = (run_buf(a.as_mut(), &data, &[data.len()]), run_buf(b.as_mut(), &data, &[3.min(data.len()), data.len() - 3.min(data.len())]));
            ensure_eq_bytes!(oa, ob, format!("C14/ctor-output/{ty}"), "{c1:?} vs {c2:?}");
        }
        2 => {
            let f = &suite.streams[t.idx(suite.streams.len())];
            let iv = gen_iv(t, bs);
            let data = tape::gen_bytes(t, n * bs + 1);
            let ty = f.type_name();
            r.d(|| format!("{ty} {c1:?} vs {c2:?} (wrapper and core)"));
            let mut a = f.make(c1, &key, &iv).map_err(|_| Violation { sig: format!("C14/ctor-rejected/{ty}"), msg: format!("{c1:?} rejected correct lengths") })?;
            let mut b = f.make(c2, &key, &iv).map_err(|_| Violation { sig: format!("C14/ctor-rejected/{ty}"), msg: format!("{c2:?} rejected correct lengths") })?;
            let (mut oa, mut ob) = (vec![0u8; data.len()], vec![0u8; data.len()]);
            ensure!(a.try_apply(ApplyKind::Inout, &data, &mut oa).is_ok() && b.try_apply(ApplyKind::Inout, &data, &mut ob).is_ok(), format!("C14/apply-rejected/{ty}"), "apply failed");
            ensure_eq_bytes!(oa, ob, format!("C14/ctor-output/{ty}"), "{c1:?} vs {c2:?}");
            let mut c = f.make_core(c2, &key, &iv).map_err(|_| Violation { sig: format!("C14/ctor-rejected/{ty}"), msg: format!("core {c2:?} rejected correct lengths") })?;
            let mut oc = vec![0u8; n * bs];
            c.process(CoreKind::ApplyBlocksInout, &data[..n * bs], &mut oc, &mut Sched::new([0; 6]));
            ensure_eq_bytes!(oc, oa[..n * bs], format!("C14/ctor-output/{ty}"), "core via {c2:?} vs wrapper via {c1:?}");
        }
        _ => {
            if suite.cts.is_empty() {
                return Ok(());
            }
            let v = CtsVariant::ALL[t.idx(6)];
            let f = suite.cts(v).unwrap();
            let iv = gen_iv(t, bs);
            let extra = t.idx(bs);
            let data = tape::gen_bytes(t, n * bs + extra);
            let ty = f.type_name();
            r.d(|| format!("{ty} {c1:?} vs {c2:?} len={}", data.len()));
            let a = f.make(c1, &key, &iv).map_err(|_| Violation { sig: format!("C14/ctor-rejected/{ty}"), msg: format!("{c1:?} rejected correct lengths") })?;
            let b = f.make(c2, &key, &iv).map_err(|_| Violation { sig: format!("C14/ctor-rejected/{ty}"), msg: format!("{c2:?} rejected correct lengths") })?;
            let (mut oa, mut ob) = (vec![0u8; data.len()], vec![0u8; data.len()]);
            ensure!(a.encrypt(Form::Inout, &data, &mut oa).is_ok() && b.encrypt(Form::Inout, &data, &mut ob).is_ok(), format!("C14/cts-rejected/{ty}"), "encrypt failed");
            ensure_eq_bytes!(oa, ob, format!("C14/ctor-output/{ty}"), "{c1:?} vs {c2:?}");
        }
    }
    Ok(())
}
