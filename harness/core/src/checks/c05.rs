//! C05 — ciphertext stealing follows NIST SP 800-38A Addendum CS1/CS2/CS3 (CBC and ECB).
//!
//! Oracle: encryption equals the model built from the statement; decryption of *arbitrary*
//! strings equals the model decryptor written from the NIST decryption steps; lengths equal.

use crate::common::*;
use crate::model;
use crate::{ensure, ensure_eq_bytes, pick};
use vp_base::obj::*;
use vp_base::tape::{self, Tape};

pub const RULE: &str = "tape -> variant in {CBC,ECB}x{CS1,CS2,CS3}, cipher config (block 1..255, width 1..16, AES, Kuznyechik, Magma, BelT), \
key, IV, direction, length L = n*b + residue with n in 1..~48 and every residue (classes L=b, L=k*b, k*b+-1), form in-place/b2b/inout with dirty \
output, arbitrary input bytes; oracle = reference CTS model (enc and dec separately); non-trivial = partial final block, or one block, \
or n >= width+2; distinct by hash of decoded values";

pub fn check(ctx: &Ctx, t: &mut Tape<'_>, r: &mut Report) -> CheckResult {
    let v = CtsVariant::ALL[t.idx(6)];
    let suite = pick!(ctx, t, r, |s| s.has_cts());
    let f = suite.cts(v).unwrap();
    let bs = suite.info.bs;
    let par = suite.info.par;
    let key = gen_key(t, suite);
    let iv = gen_iv(t, bs);
    let decrypt = t.chance(128);
    let class = t.byte();
    let k = 1 + gen_nblocks(t, par, 47).min(if bs > 64 { 6 } else { 47 });
    let any = t.idx(bs);
    let len = match class {
        0..=39 => bs,
        40..=89 => k * bs,
        90..=129 => k * bs + 1,
        130..=169 => (k * bs - 1).max(bs),
        _ => k * bs + any,
    };
    let data = tape::gen_bytes(t, len);
    let form = t.pick(&[Form::InPlace, Form::B2b, Form::Inout]);
    let pre = gen_prefill_kind(t);
    let how = ctor_pick(t);
    let ty = f.type_name();
    let n = len.div_ceil(bs);
    let d = len - (n - 1) * bs;
    r.nontrivial = d != bs || n == 1 || n >= par + 2;
    r.label_if(n == 1, "one-block");
    r.label_if(d != bs, "partial-final-block");
    r.label_if(d == bs && n > 1, "whole-blocks");
    r.label_if(n >= par + 2 && par > 1, "n>=par+2");
    r.label_if(decrypt, "decrypt-arbitrary-bytes");
    r.label_if(!suite.info.is_toy, "real-cipher");
    r.d(|| format!("{ty} {} ctor={how:?} {form:?} key={} iv={} len={len} (n={n}, d={d}) data={}", if decrypt { "dec" } else { "enc" }, tape::hex_short(&key), tape::hex_short(&iv), tape::hex_short(&data)));
    let c = (suite.keyed)(&key);
    let obj = f.make(how, &key, &iv).map_err(|_| Violation { sig: format!("C05/ctor-rejected/{ty}"), msg: format!("{how:?} rejected correct lengths") })?;
    let mut out = prefill(pre.0, pre.1, &data);
    let (res, want) = if decrypt {
        (obj.decrypt(form, &data, &mut out), model::cts_dec(c.as_ref(), v, &iv, &data))
    } else {
        (obj.encrypt(form, &data, &mut out), model::cts_enc(c.as_ref(), v, &iv, &data))
    };
    ensure!(res.is_ok(), format!("C05/rejected/{ty}"), "a {len}-byte message (>= one {bs}-byte block) was rejected");
    ensure!(out.len() == len, format!("C05/length/{ty}"), "output length {} for input {len}", out.len());
    let which = if decrypt { "decrypt" } else { "encrypt" };
    ensure_eq_bytes!(out, want, format!("C05/{which}/{ty}"), "len {len} (n={n}, d={d}) {form:?}");
    Ok(())
}
