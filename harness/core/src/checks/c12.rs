//! C12 — in-place and buffer-to-buffer operation give identical results.
//!
//! Oracle (differential): for every operation offered in both forms the bytes written are
//! identical whatever the output buffer contained, and the state left behind is the same.

use crate::common::*;
use crate::{ensure, ensure_eq_bytes, pick};
use vp_base::obj::*;
use vp_base::tape::{self, Tape};

pub const RULE: &str = "tape -> family (block modes: *_block(s) vs *_b2b / *_inout / backend closure over separate buffers | async one-shots | padded \
one-shots | stream wrappers | stream cores | CTS), cipher config, key, IV, message, output pre-fill in {zeros, FF, copy of input, random}; oracle = \
in-place result and state; non-trivial = pre-fill differs from both the input and zeros, and more than one block; distinct by hash of decoded values";

pub fn check(ctx: &Ctx, t: &mut Tape<'_>, r: &mut Report) -> CheckResult {
    match t.pick(&[0u8, 0, 1, 2, 3, 4, 5]) {
        0 => block_modes(ctx, t, r),
        1 => async_oneshot(ctx, t, r),
        2 => padded(ctx, t, r),
        3 => wrappers(ctx, t, r),
        4 => cores(ctx, t, r),
        _ => cts(ctx, t, r),
    }
}

fn nontrivial_prefill(pre: (u8, u32)) -> bool {
    pre.0 == 1 || pre.0 == 3
}

fn block_modes(ctx: &Ctx, t: &mut Tape<'_>, r: &mut Report) -> CheckResult {
    let suite = pick!(ctx, t, r, |_| true);
    let modes = modes_for(suite);
    let (mode, dir) = modes[t.idx(modes.len())];
    let f = suite.block_mode(mode, dir).unwrap();
    let unit = f.unit();
    let par = suite.info.par;
    let key = gen_key(t, suite);
    let iv = gen_iv(t, f.iv_len());
    let n = if unit == 1 { gen_msg_len(t, suite.info.bs, 4) } else { gen_nblocks(t, par, 30) };
    let data = tape::gen_bytes(t, n * unit);
    let pre = gen_prefill_kind(t);
    // like with like: the same operation in its in-place and its two-buffer form (batching is C07's business)
    let (inplace, b2b) = t.pick(&[
        (CallKind::Blocks, CallKind::BlocksB2b),
        (CallKind::Block, CallKind::BlockB2b),
        (CallKind::BackendInplace, CallKind::Backend),
        (CallKind::Blocks, CallKind::BlocksInout),
        (CallKind::Block, CallKind::BlockInout),
        (CallKind::BlocksInoutInplace, CallKind::BlocksInout),
        (CallKind::BackendInplace, CallKind::Backend),
    ]);
    let mut sb = [0u8; 6];
    for b in sb.iter_mut() {
        *b = t.byte();
    }
    let ty = f.type_name();
    r.label("block-mode");
    r.nontrivial = nontrivial_prefill(pre) && n > 1;
    r.d(|| format!("{ty} key={} iv={} n={n} {inplace:?} vs {b2b:?} prefill={} data={}", tape::hex_short(&key), tape::hex_short(&iv), pre.0, tape::hex_short(&data)));
    let mut a = f.make(Ctor::New, &key, &iv).expect("harness: ctor");
    let mut b = f.make(Ctor::New, &key, &iv).expect("harness: ctor");
    let mut oa = vec![0u8; data.len()];
    let mut ob = prefill(pre.0, pre.1, &data);
    let mut s1 = Sched::new(sb);
    let mut s2 = Sched::new(sb);
    ensure!(a.process(inplace, &data, &mut oa, &mut s1).is_ok(), format!("C12/equal-length-call-rejected/{ty}"), "{inplace:?}");
    ensure!(b.process(b2b, &data, &mut ob, &mut s2).is_ok(), format!("C12/equal-length-call-rejected/{ty}"), "{b2b:?}");
    ensure_eq_bytes!(ob, oa, format!("C12/output/{ty}"), "{b2b:?} (prefill {}) vs {inplace:?}, trace {}", pre.0, s2.trace);
    ensure!(a.iv_state() == b.iv_state(), format!("C12/state/{ty}"), "iv_state differs between {inplace:?} and {b2b:?}");
    let suffix = tape::bytes(3, 0xC12, 2 * unit);
    let (xa, xb) = (run_simple(a.as_mut(), &suffix), run_simple(b.as_mut(), &suffix));
    ensure_eq_bytes!(xb, xa, format!("C12/continuation/{ty}"), "two further units after {b2b:?} vs {inplace:?}");
    Ok(())
}

fn async_oneshot(ctx: &Ctx, t: &mut Tape<'_>, r: &mut Report) -> CheckResult {
    let mode = t.pick(&[Mode::Cfb, Mode::Cfb8]);
    let dir = t.pick(&[Direction::Enc, Direction::Dec]);
    let suite = pick!(ctx, t, r, |_| true);
    let f = suite.block_mode(mode, dir).unwrap();
    let bs = suite.info.bs;
    let key = gen_key(t, suite);
    let iv = gen_iv(t, bs);
    let len = gen_msg_len(t, bs, 6);
    let data = tape::gen_bytes(t, len);
    let pre = gen_prefill_kind(t);
    let form = t.pick(&[Form::B2b, Form::Inout]);
    let ty = f.type_name();
    r.label("async");
    r.nontrivial = nontrivial_prefill(pre) && len > bs;
    r.d(|| format!("async {ty} key={} iv={} len={len} in-place vs {form:?} prefill={} data={}", tape::hex_short(&key), tape::hex_short(&iv), pre.0, tape::hex_short(&data)));
    let a = f.make(Ctor::New, &key, &iv).expect("harness: ctor");
    let b = f.make(Ctor::New, &key, &iv).expect("harness: ctor");
    let mut oa = vec![0u8; len];
    let mut ob = prefill(pre.0, pre.1, &data);
    let ra = a.oneshot(OneShot::Async(Form::InPlace), &data, &mut oa).ok_or_else(|| Violation { sig: format!("C12/no-async/{ty}"), msg: "type no longer implements AsyncStreamCipher".into() })?;
    let rb = b.oneshot(OneShot::Async(form), &data, &mut ob).expect("harness: same type");
    ensure!(ra.is_ok() && rb.is_ok(), format!("C12/async-rejected/{ty}"), "equal lengths rejected");
    ensure_eq_bytes!(ob, oa, format!("C12/output-async/{ty}"), "{form:?} (prefill {}) vs in place, {len} bytes", pre.0);
    Ok(())
}

fn padded(ctx: &Ctx, t: &mut Tape<'_>, r: &mut Report) -> CheckResult {
    let suite = pick!(ctx, t, r, |_| true);
    let modes = modes_for(suite);
    let (mode, dir) = modes[t.idx(modes.len())];
    let f = suite.block_mode(mode, dir).unwrap();
    let unit = f.unit();
    let key = gen_key(t, suite);
    let iv = gen_iv(t, f.iv_len());
    let pad = t.pick(&[Pad::Pkcs7, Pad::Iso7816, Pad::AnsiX923, Pad::NoPadding, Pad::ZeroPadding]);
    let form = t.pick(&[Form::B2b, Form::Inout, Form::Vec]);
    let pre = gen_prefill_kind(t);
    let mut len = gen_msg_len(t, unit, 8);
    // decryptors need whole blocks; NoPadding needs whole blocks in both directions
    if dir == Direction::Dec || pad == Pad::NoPadding {
        len -= len % unit;
    }
    let data = tape::gen_bytes(t, len);
    let ty = f.type_name();
    r.label("padded");
    r.nontrivial = nontrivial_prefill(pre) && len > unit;
    r.d(|| format!("padded {ty} {pad:?} key={} iv={} len={len} in-place vs {form:?} prefill={} data={}", tape::hex_short(&key), tape::hex_short(&iv), pre.0, tape::hex_short(&data)));
    let a = f.make(Ctor::New, &key, &iv).expect("harness: ctor");
    let b = f.make(Ctor::New, &key, &iv).expect("harness: ctor");
    let room = if dir == Direction::Enc { len + unit } else { len };
    let mut oa = vec![0u8; room];
    let mut ob = prefill(pre.0, pre.1, &vec![0u8; room]);
    let ra = a.oneshot(OneShot::Padded(pad, Form::InPlace), &data, &mut oa).expect("harness: padded offered");
    let rb = b.oneshot(OneShot::Padded(pad, form), &data, &mut ob).expect("harness: padded offered");
    // decrypting arbitrary bytes usually fails to unpad: both forms must then agree on the failure
    ensure!(ra.is_ok() == rb.is_ok(), format!("C12/padded-verdict/{ty}"), "{pad:?}: in place -> {ra:?}, {form:?} -> {rb:?}");
    if let (Ok(na), Ok(nb)) = (ra, rb) {
        ensure!(na == nb, format!("C12/padded-length/{ty}"), "{pad:?}: in place -> {na} bytes, {form:?} -> {nb} bytes");
        ensure_eq_bytes!(ob[..nb], oa[..na], format!("C12/output-padded/{ty}"), "{pad:?} {form:?} (prefill {}) vs in place", pre.0);
        r.label("padded-ok");
    }
    Ok(())
}

fn wrappers(ctx: &Ctx, t: &mut Tape<'_>, r: &mut Report) -> CheckResult {
    let suite = pick!(ctx, t, r, |_| true);
    let f = &suite.streams[t.idx(suite.streams.len())];
    let bs = suite.info.bs;
    let key = gen_key(t, suite);
    let c = (suite.keyed)(&key);
    let iv = gen_stream_iv(t, f.kind(), bs, c.as_ref(), suite.info.has_dec);
    let len = gen_msg_len(t, bs, 6);
    let data = tape::gen_bytes(t, len);
    let cuts = gen_cuts(t, len, bs, 5);
    let pre = gen_prefill_kind(t);
    let k2 = t.pick(&[ApplyKind::B2b, ApplyKind::Inout]);
    let ty = f.type_name();
    r.label("stream");
    r.nontrivial = nontrivial_prefill(pre) && len > bs;
    r.d(|| format!("{ty} key={} iv={} len={len} cuts={} in-place vs {k2:?} prefill={} data={}", tape::hex_short(&key), tape::hex_short(&iv), describe_cuts(&cuts), pre.0, tape::hex_short(&data)));
    let mut a = f.make(Ctor::New, &key, &iv).expect("harness: ctor");
    let mut b = f.make(Ctor::New, &key, &iv).expect("harness: ctor");
    let oa = run_stream_opt(a.as_mut(), &data, &cuts, &[ApplyKind::InPlace; 5], (0, 0));
    let ob = run_stream_opt(b.as_mut(), &data, &cuts, &[k2; 5], pre);
    ensure!(oa.is_some() == ob.is_some(), format!("C12/verdict/{ty}"), "in place {} but {k2:?} {}", if oa.is_some() { "accepted" } else { "refused" }, if ob.is_some() { "accepted" } else { "refused" });
    let (Some(oa), Some(ob)) = (oa, ob) else {
        r.label("both-refused");
        r.nontrivial = false;
        return Ok(());
    };
    ensure_eq_bytes!(ob, oa, format!("C12/output-stream/{ty}"), "{k2:?} (prefill {}) vs in place, cuts {}", pre.0, describe_cuts(&cuts));
    ensure!(a.core_block_pos() == b.core_block_pos() && a.core_iv_state() == b.core_iv_state(), format!("C12/state/{ty}"), "core state differs");
    let tail = tape::bytes(3, 0x12C, bs + 1);
    let (mut ta, mut tb) = (vec![0u8; tail.len()], vec![0u8; tail.len()]);
    let _ = a.try_apply(ApplyKind::Inout, &tail, &mut ta);
    let _ = b.try_apply(ApplyKind::Inout, &tail, &mut tb);
    ensure_eq_bytes!(tb, ta, format!("C12/continuation/{ty}"), "bytes after the {k2:?} run");
    Ok(())
}

fn cores(ctx: &Ctx, t: &mut Tape<'_>, r: &mut Report) -> CheckResult {
    let suite = pick!(ctx, t, r, |_| true);
    let f = &suite.streams[t.idx(suite.streams.len())];
    let bs = suite.info.bs;
    let key = gen_key(t, suite);
    let c = (suite.keyed)(&key);
    let iv = gen_stream_iv(t, f.kind(), bs, c.as_ref(), suite.info.has_dec);
    let n = gen_nblocks(t, suite.info.par, 24);
    let data = tape::gen_bytes(t, n * bs);
    let pre = gen_prefill_kind(t);
    // `apply_keystream_blocks` (in place) and `apply_keystream_blocks_inout` are the one operation the
    // cores offer in both forms
    let k2 = t.pick(&[CoreKind::ApplyBlocksInout]);
    let mut sb = [0u8; 6];
    for b in sb.iter_mut() {
        *b = t.byte();
    }
    let ty = f.core_type_name();
    r.label("stream-core");
    r.nontrivial = nontrivial_prefill(pre) && n > 1;
    r.d(|| format!("{ty} key={} iv={} n={n} apply_keystream_blocks vs {k2:?} prefill={} data={}", tape::hex_short(&key), tape::hex_short(&iv), pre.0, tape::hex_short(&data)));
    let mut a = f.make_core(Ctor::New, &key, &iv).expect("harness: ctor");
    let mut b = f.make_core(Ctor::New, &key, &iv).expect("harness: ctor");
    let mut oa = vec![0u8; data.len()];
    let mut ob = prefill(pre.0, pre.1, &data);
    a.process(CoreKind::ApplyBlocks, &data, &mut oa, &mut Sched::new(sb));
    let mut s2 = Sched::new(sb);
    b.process(k2, &data, &mut ob, &mut s2);
    ensure_eq_bytes!(ob, oa, format!("C12/output-core/{ty}"), "{k2:?} (prefill {}) vs apply_keystream_blocks in place, trace {}", pre.0, s2.trace);
    ensure!(a.iv_state() == b.iv_state() && a.get_block_pos() == b.get_block_pos(), format!("C12/state/{ty}"), "core state differs");
    Ok(())
}

fn cts(ctx: &Ctx, t: &mut Tape<'_>, r: &mut Report) -> CheckResult {
    let suite = pick!(ctx, t, r, |s| s.has_cts());
    let v = CtsVariant::ALL[t.idx(6)];
    let f = suite.cts(v).unwrap();
    let bs = suite.info.bs;
    let key = gen_key(t, suite);
    let iv = gen_iv(t, bs);
    let len = bs + gen_msg_len(t, bs, 7);
    let data = tape::gen_bytes(t, len);
    let decrypt = t.chance(128);
    let form = t.pick(&[Form::B2b, Form::Inout]);
    let pre = gen_prefill_kind(t);
    let ty = f.type_name();
    r.label("cts");
    r.nontrivial = nontrivial_prefill(pre) && len > bs;
    r.d(|| format!("{ty} {} key={} iv={} len={len} in-place vs {form:?} prefill={} data={}", if decrypt { "dec" } else { "enc" }, tape::hex_short(&key), tape::hex_short(&iv), pre.0, tape::hex_short(&data)));
    let a = f.make(Ctor::New, &key, &iv).expect("harness: ctor");
    let b = f.make(Ctor::New, &key, &iv).expect("harness: ctor");
    let mut oa = vec![0u8; len];
    let mut ob = prefill(pre.0, pre.1, &data);
    let (ra, rb) = if decrypt {
        (a.decrypt(Form::InPlace, &data, &mut oa), b.decrypt(form, &data, &mut ob))
    } else {
        (a.encrypt(Form::InPlace, &data, &mut oa), b.encrypt(form, &data, &mut ob))
    };
    ensure!(ra.is_ok() && rb.is_ok(), format!("C12/cts-rejected/{ty}"), "{len} >= {bs} bytes rejected");
    ensure_eq_bytes!(ob, oa, format!("C12/output-cts/{ty}"), "{form:?} (prefill {}) vs in place, len {len}", pre.0);
    Ok(())
}
