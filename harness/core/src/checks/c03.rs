//! C03 — CFB, CFB-8 and OFB compute exactly their defining recurrences and use only the
//! encryption direction of the cipher.
//!
//! Oracle: reference model for output and chaining value; the toy cipher's call log must
//! contain no `D` call while data is processed (the types are also instantiated over an
//! encrypt-only cipher, which is compile-time evidence).

use crate::common::*;
use crate::model;
use crate::{ensure, ensure_eq_bytes, pick};
use vp_base::obj::*;
use vp_base::tape::{self, Tape};
use vp_base::toy;

pub const RULE: &str = "tape -> front-end (block-level CFB/CFB-8/OFB enc+dec with call schedules | async one-shot with partial tail | \
buffered CFB with chunking | OFB byte stream with chunking | OfbCore as keystream core), cipher config incl. encrypt-only ciphers, key, IV, \
arbitrary data (decryptors get arbitrary bytes); oracle = reference recurrence for output and chaining value, no D call in the toy call log; \
non-trivial = partial final block, or block size != 16, or >= 3 chunks; distinct by hash of decoded values";

pub fn check(ctx: &Ctx, t: &mut Tape<'_>, r: &mut Report) -> CheckResult {
    match t.pick(&[0u8, 0, 1, 2, 3, 4]) {
        0 => block_level(ctx, t, r),
        1 => async_oneshot(ctx, t, r),
        2 => buffered(ctx, t, r),
        3 => ofb_stream(ctx, t, r),
        _ => ofb_core(ctx, t, r),
    }
}

fn no_d_calls(log: &[toy::Ev], ty: &str) -> CheckResult {
    if let Some(ev) = log.iter().find(|e| e.dir == toy::Dir::D) {
        return Err(Violation {
            sig: format!("C03/uses-decryption/{ty}"),
            msg: format!("the cipher's decryption direction was called on block {}", tape::hex_short(&ev.input)),
        });
    }
    Ok(())
}

fn block_level(ctx: &Ctx, t: &mut Tape<'_>, r: &mut Report) -> CheckResult {
    let mode = t.pick(&[Mode::Cfb, Mode::Cfb8, Mode::Ofb]);
    let dir = t.pick(&[Direction::Enc, Direction::Dec]);
    let suite = pick!(ctx, t, r, |_| true);
    let f = suite.block_mode(mode, dir).unwrap();
    let how = ctor_pick(t);
    let key = gen_key(t, suite);
    let bs = suite.info.bs;
    let iv = gen_iv(t, bs);
    let unit = f.unit();
    let par = suite.info.par;
    let n = if unit == 1 {
        // CFB-8 works on bytes: mostly a few register lengths, sometimes well past 256 bytes
        let l = gen_msg_len(t, bs, 5);
        if t.chance(24) { 250 + (l * 7) % 300 } else { l }
    } else {
        gen_nblocks(t, par, 40)
    };
    let data = tape::gen_bytes(t, n * unit);
    let pre = gen_prefill_kind(t);
    let pieces = gen_pieces(t, n, 5, par);
    let ty = f.type_name();
    r.label("block-level");
    r.nontrivial = bs != 16 || pieces.len() >= 3;
    r.label_if(bs != 16, "bs!=16");
    r.label_if(pieces.len() >= 3, "pieces>=3");
    r.label_if(!suite.info.has_dec, "enc-only-cipher");
    r.label_if(par > 1 && n > par, "n>par");
    r.d(|| format!("{ty} ctor={how:?} key={} iv={} n={n} data={} prefill={} pieces=[{}]", tape::hex_short(&key), tape::hex_short(&iv), tape::hex_short(&data), pre.0, describe_pieces(&pieces)));
    let c = (suite.keyed)(&key);
    let mut obj = f.make(how, &key, &iv).map_err(|_| Violation { sig: format!("C03/ctor-rejected/{ty}"), msg: format!("{how:?} rejected correct lengths") })?;
    // drive piece by piece, logging cipher calls only while data is processed
    let mut chain = iv.clone();
    let mut off = 0;
    for (i, p) in pieces.iter().enumerate() {
        let len = p.blocks * unit;
        let inp = &data[off..off + len];
        let mut o = prefill(pre.0, pre.1.wrapping_add(off as u32), inp);
        let mut sched = Sched::new(p.sched);
        toy::log_start();
        let res = obj.process(p.kind, inp, &mut o, &mut sched);
        let log = toy::log_take();
        ensure!(res.is_ok(), format!("C03/equal-length-call-rejected/{ty}"), "{:?} rejected equal lengths", p.kind);
        no_d_calls(&log, &ty)?;
        let (mo, mc) = model::block_mode(c.as_ref(), mode, dir, &chain, inp);
        ensure_eq_bytes!(o, mo, format!("C03/output/{ty}"), "piece {i} ({:?}, units {}..{}) trace {}", p.kind, off / unit, (off + len) / unit, sched.trace);
        chain = mc;
        if let Some(st) = obj.iv_state() {
            ensure_eq_bytes!(st, chain, format!("C03/state/{ty}"), "iv_state() after piece {i} ({} units in total)", (off + len) / unit);
        } else {
            // CFB over an encrypt-only cipher has no IvState (it needs D); everything else must
            ensure!(mode == Mode::Cfb && !suite.info.has_dec, format!("C03/no-ivstate/{ty}"), "type does not report an IV state");
        }
        off += len;
    }
    Ok(())
}

fn async_oneshot(ctx: &Ctx, t: &mut Tape<'_>, r: &mut Report) -> CheckResult {
    let mode = t.pick(&[Mode::Cfb, Mode::Cfb8]);
    let dir = t.pick(&[Direction::Enc, Direction::Dec]);
    let suite = pick!(ctx, t, r, |_| true);
    let f = suite.block_mode(mode, dir).unwrap();
    let key = gen_key(t, suite);
    let bs = suite.info.bs;
    let iv = gen_iv(t, bs);
    let len = gen_msg_len(t, bs, 8);
    let data = tape::gen_bytes(t, len);
    let form = t.pick(&[Form::InPlace, Form::B2b, Form::Inout]);
    let pre = gen_prefill_kind(t);
    let ty = f.type_name();
    r.label("async");
    r.nontrivial = len % bs != 0 || bs != 16;
    r.label_if(len % bs != 0, "partial-tail");
    r.d(|| format!("async {ty} {form:?} key={} iv={} len={len} data={}", tape::hex_short(&key), tape::hex_short(&iv), tape::hex_short(&data)));
    let c = (suite.keyed)(&key);
    let obj = f.make(Ctor::New, &key, &iv).expect("harness: ctor");
    let mut out = prefill(pre.0, pre.1, &data);
    toy::log_start();
    let res = obj.oneshot(OneShot::Async(form), &data, &mut out);
    let log = toy::log_take();
    let res = res.ok_or_else(|| Violation { sig: format!("C03/no-async/{ty}"), msg: "type no longer implements AsyncStreamCipher".into() })?;
    ensure!(res == Ok(len), format!("C03/async-rejected/{ty}"), "{form:?} with equal lengths failed");
    no_d_calls(&log, &ty)?;
    let (mo, _) = model::block_mode(c.as_ref(), mode, dir, &iv, &data);
    ensure_eq_bytes!(out, mo, format!("C03/output-async/{ty}"), "one-shot {form:?} of {len} bytes");
    Ok(())
}

fn buffered(ctx: &Ctx, t: &mut Tape<'_>, r: &mut Report) -> CheckResult {
    let dir = t.pick(&[Direction::Enc, Direction::Dec]);
    let suite = pick!(ctx, t, r, |_| true);
    let f = suite.buf(dir).unwrap();
    let key = gen_key(t, suite);
    let bs = suite.info.bs;
    let iv = gen_iv(t, bs);
    let len = gen_msg_len(t, bs, 8);
    let data = tape::gen_bytes(t, len);
    let cuts = gen_cuts(t, len, bs, 7);
    let ty = f.type_name();
    r.label("buffered");
    r.nontrivial = len % bs != 0 || bs != 16 || cuts.len() >= 3;
    r.label_if(cuts.len() >= 3, "pieces>=3");
    r.label_if(cuts.iter().any(|c| *c == 0), "empty-piece");
    r.d(|| format!("buffered {ty} key={} iv={} len={len} data={} cuts={}", tape::hex_short(&key), tape::hex_short(&iv), tape::hex_short(&data), describe_cuts(&cuts)));
    let c = (suite.keyed)(&key);
    let mut obj = f.make(ctor_pick(t), &key, &iv).map_err(|_| Violation { sig: format!("C03/ctor-rejected/{ty}"), msg: "constructor rejected correct lengths".into() })?;
    toy::log_start();
    let out = run_buf(obj.as_mut(), &data, &cuts);
    let log = toy::log_take();
    no_d_calls(&log, &ty)?;
    let (mo, _) = model::block_mode(c.as_ref(), Mode::Cfb, dir, &iv, &data);
    ensure_eq_bytes!(out, mo, format!("C03/output-buffered/{ty}"), "cuts {}", describe_cuts(&cuts));
    Ok(())
}

fn ofb_stream(ctx: &Ctx, t: &mut Tape<'_>, r: &mut Report) -> CheckResult {
    let suite = pick!(ctx, t, r, |_| true);
    let f = suite.stream(StreamKind::Ofb).unwrap();
    let key = gen_key(t, suite);
    let bs = suite.info.bs;
    let iv = gen_iv(t, bs);
    let len = gen_msg_len(t, bs, 8);
    let data = tape::gen_bytes(t, len);
    let cuts = gen_cuts(t, len, bs, 7);
    let kinds = gen_apply_kinds(t, 7);
    let pre = gen_prefill_kind(t);
    let ty = f.type_name();
    r.label("ofb-stream");
    r.nontrivial = len % bs != 0 || bs != 16 || cuts.len() >= 3;
    r.d(|| format!("{ty} key={} iv={} len={len} data={} cuts={} kinds={kinds:?}", tape::hex_short(&key), tape::hex_short(&iv), tape::hex_short(&data), describe_cuts(&cuts)));
    let c = (suite.keyed)(&key);
    let mut obj = f.make(ctor_pick(t), &key, &iv).map_err(|_| Violation { sig: format!("C03/ctor-rejected/{ty}"), msg: "constructor rejected correct lengths".into() })?;
    toy::log_start();
    let out = run_stream(obj.as_mut(), &data, &cuts, &kinds, pre);
    let log = toy::log_take();
    let out = out.map_err(|v| with_sig("C03", &ty, v))?;
    no_d_calls(&log, &ty)?;
    let (mo, _) = model::ofb(c.as_ref(), &iv, &data);
    ensure_eq_bytes!(out, mo, format!("C03/output-stream/{ty}"), "cuts {}", describe_cuts(&cuts));
    Ok(())
}

fn ofb_core(ctx: &Ctx, t: &mut Tape<'_>, r: &mut Report) -> CheckResult {
    let suite = pick!(ctx, t, r, |_| true);
    let f = suite.stream(StreamKind::Ofb).unwrap();
    let key = gen_key(t, suite);
    let bs = suite.info.bs;
    let iv = gen_iv(t, bs);
    let n = gen_nblocks(t, suite.info.par, 24);
    let data = tape::gen_bytes(t, n * bs);
    let kind = CoreKind::ALL[t.idx(CoreKind::ALL.len())];
    let mut sb = [0u8; 6];
    for b in sb.iter_mut() {
        *b = t.byte();
    }
    let pre = gen_prefill_kind(t);
    let ty = f.core_type_name();
    r.label("ofb-core");
    r.nontrivial = bs != 16 || n >= 3;
    r.d(|| format!("{ty} as keystream core {kind:?} key={} iv={} n={n} data={}", tape::hex_short(&key), tape::hex_short(&iv), tape::hex_short(&data)));
    let c = (suite.keyed)(&key);
    let mut core = f.make_core(Ctor::New, &key, &iv).expect("harness: ctor");
    let mut out = prefill(pre.0, pre.1, &data);
    let mut s = Sched::new(sb);
    toy::log_start();
    core.process(kind, &data, &mut out, &mut s);
    let log = toy::log_take();
    no_d_calls(&log, &ty)?;
    let (mo, mc) = model::ofb(c.as_ref(), &iv, &data);
    ensure_eq_bytes!(out, mo, format!("C03/output-core/{ty}"), "{kind:?} on {n} blocks");
    let st = core.iv_state();
    ensure!(st.as_deref() == Some(&mc[..]), format!("C03/state/{ty}"), "iv_state after {n} keystream blocks is not O_n");
    Ok(())
}
