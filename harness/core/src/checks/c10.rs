//! C10 — seeking and position reporting are coherent with the keystream (CTR x6, BelT-CTR).
//!
//! Oracle: an exact integer position model run alongside a generated history of
//! seek / apply / current_pos operations; bytes after a seek equal the reference keystream at
//! that offset; reported positions obey soundness rule 4.

use crate::common::*;
use crate::model::KsModel;
use crate::{ensure, ensure_eq_bytes, pick};
use vp_base::obj::*;
use vp_base::tape::{self, Tape};

pub const RULE: &str = "tape -> seekable kind (CTR 32/64/128 BE/LE, BelT), cipher config, key, IV, history of <= 12 ops from {try_seek::<T>(p), \
try_apply_keystream / _inout / _b2b (n bytes), try_current_pos::<T>()}, T in {i32,u32,u64,u128,usize}, p in classes {0, small, inside a block, \
around 2^31/2^32/2^36/2^64, end - few blocks, backward relative to the current position, same position}; \
requests crossing the keystream end are not generated (C11); oracle = position model + reference keystream; non-trivial = >= 2 seeks with data \
in between, one of them backward or into the middle of a block, or a position beyond 2^32; distinct by hash of decoded values";

fn limit_blocks(kind: StreamKind) -> u128 {
    match kind {
        StreamKind::Ctr(128, _) | StreamKind::Belt => u128::MAX,
        StreamKind::Ctr(w, _) => (1u128 << w) - 1,
        StreamKind::Ofb => unreachable!("harness: OFB is not seekable"),
    }
}

pub fn check(ctx: &Ctx, t: &mut Tape<'_>, r: &mut Report) -> CheckResult {
    let kind = t.pick(&STREAM_KINDS_ALL[..7]);
    let suite = pick!(ctx, t, r, |s| s.has_stream(kind));
    let f = suite.stream(kind).unwrap();
    let bs = suite.info.bs;
    let key = gen_key(t, suite);
    let c = (suite.keyed)(&key);
    let iv = gen_stream_iv(t, kind, bs, c.as_ref(), suite.info.has_dec);
    let nops = 1 + t.idx(12);
    let ty = f.type_name();
    let model = KsModel::new(c.as_ref(), kind, &iv);
    let lim = limit_blocks(kind);
    // largest byte position that can be expressed at all (u128) and is inside the keystream
    let end_bytes: u128 = lim.checked_mul(bs as u128).unwrap_or(u128::MAX - (u128::MAX % bs as u128));
    let w = kind.width().unwrap();
    let mut obj = f.make(ctor_pick(t), &key, &iv).map_err(|_| Violation { sig: format!("C10/ctor-rejected/{ty}"), msg: "constructor rejected correct lengths".into() })?;
    let mut q = Pos::zero();
    let mut hist = Vec::new();
    let (mut seeks, mut data_between, mut interesting_seek, mut far) = (0, false, false, false);
    let mut had_data_since_seek = false;
    for i in 0..12 {
        // fixed 16-byte records
        let opk = t.byte();
        let tyb = t.byte();
        let class = t.byte();
        let a = ((t.u32() as u128) << 32) | t.u32() as u128;
        let j = t.offset(3 * bs as i64);
        let nlen = t.byte() as usize;
        let ak = ApplyKind::ALL[t.idx(3)];
        let pre = gen_prefill_kind(t);
        if i >= nops {
            continue;
        }
        match opk {
            0..=79 => {
                // ---- seek
                let base: u128 = match class {
                    0..=19 => 0,
                    20..=59 => a % (6 * bs as u128),
                    60..=79 => 1u128 << 31,
                    80..=99 => 1u128 << 32,
                    100..=114 => 1u128 << 36,
                    115..=134 => 1u128 << 64,
                    135..=164 => end_bytes - (a % (4 * bs as u128)).min(end_bytes),
                    165..=199 => q.bytes(bs).unwrap_or(0), // relative to the current position (same / backward / forward by j)
                    // (positions beyond the counter range belong to C11 and are generated there)
                    200..=219 => a % (40 * bs as u128),
                    _ => {
                        let mut st = (a as u64) ^ 0xABCD;
                        let x = ((vp_base::tape::splitmix(&mut st) as u128) << 64) | vp_base::tape::splitmix(&mut st) as u128;
                        x % end_bytes.max(1)
                    }
                };
                let beyond = false;
                let p = if beyond { base } else { (base as i128).checked_add(j as i128).map(|v| v.max(0) as u128).unwrap_or(base).min(end_bytes.saturating_sub(1)) };
                if !beyond && end_bytes == 0 {
                    continue;
                }
                let tys = seek_types_for(p);
                let nt = tys[(tyb as usize * tys.len()) >> 8];
                let np = Pos::from_bytes(p, bs);
                hist.push(format!("seek<{nt:?}>({p})"));
                let res = obj.try_seek(nt, p).ok_or_else(|| Violation { sig: format!("C10/not-seekable/{ty}"), msg: "type no longer implements StreamCipherSeek".into() })?;
                if beyond {
                    r.label("seek-beyond-counter-range");
                    ensure!(res.is_err(), format!("C10/seek-beyond-range-accepted/{ty}"), "try_seek::<{nt:?}>({p}): block index {} does not fit a {w}-bit counter but the call succeeded [{}]", np.blk, hist.join(" "));
                    // position unchanged: verified by the following operations against q
                } else {
                    ensure!(res.is_ok(), format!("C10/seek-rejected/{ty}"), "try_seek::<{nt:?}>({p}) failed although block {} < {lim} [{}]", np.blk, hist.join(" "));
                    seeks += 1;
                    if had_data_since_seek && seeks >= 2 {
                        data_between = true;
                    }
                    if np.off != 0 || np.bytes(bs) < q.bytes(bs) {
                        interesting_seek = true;
                    }
                    r.label_if(np.bytes(bs) < q.bytes(bs), "seek-backward");
                    r.label_if(np.off != 0, "seek-inside-block");
                    r.label_if(np == q, "seek-same-position");
                    if p > u32::MAX as u128 {
                        far = true;
                    }
                    q = np;
                    had_data_since_seek = false;
                }
            }
            80..=179 => {
                // ---- apply
                let n = match nlen {
                    0..=15 => 0,
                    16..=79 => 1 + nlen % bs,
                    80..=119 => bs - q.off, // up to the next boundary exactly
                    120..=159 => bs,
                    160..=199 => bs + 1,
                    _ => (nlen * 3 * bs) / 256,
                };
                if !fits(q, n, bs, lim) || q.advance(n, bs).and_then(|e| e.bytes(bs)).is_none() {
                    r.label("apply-skipped-would-cross-end");
                    continue;
                }
                let data = tape::bytes(3, a as u32 ^ i as u32, n);
                hist.push(format!("apply<{ak:?}>({n})"));
                let mut o = prefill(pre.0, pre.1, &data);
                let res = obj.try_apply(ak, &data, &mut o);
                ensure!(res.is_ok(), format!("C10/apply-rejected/{ty}"), "{n} bytes at block {} offset {} are inside the keystream but the call failed [{}]", q.blk, q.off, hist.join(" "));
                let want = model.apply_at(q.blk, q.off, &data);
                ensure_eq_bytes!(o, want, format!("C10/keystream-at-position/{ty}"), "{n} bytes at block {} offset {} [{}]", q.blk, q.off, hist.join(" "));
                q = q.advance(n, bs).unwrap();
                if n > 0 {
                    had_data_since_seek = true;
                }
            }
            _ => {
                // ---- current position
                let nt = NumTy::ALL[(tyb as usize * 5) >> 8];
                hist.push(format!("pos<{nt:?}>"));
                let res = obj.try_current_pos(nt);
                r.label_if(matches!(res, Some(Err(_))), "pos-does-not-fit");
                check_reported_pos(res, nt, q, bs, "C10", &ty).map_err(|mut v| {
                    v.msg = format!("{} [{}]", v.msg, hist.join(" "));
                    v
                })?;
                // block position of the core agrees too
                ensure!(obj.core_block_pos() == Some(q.blocks_generated()), format!("C10/core-block-pos/{ty}"), "core block position {:?} but {} blocks precede [{}]", obj.core_block_pos(), q.blocks_generated(), hist.join(" "));
            }
        }
    }
    // always finish with a position query and a few bytes
    check_reported_pos(obj.try_current_pos(NumTy::U128), NumTy::U128, q, bs, "C10", &ty).map_err(|mut v| {
        v.msg = format!("{} [final; {}]", v.msg, hist.join(" "));
        v
    })?;
    if fits(q, bs + 1, bs, lim) && q.advance(bs + 1, bs).and_then(|e| e.bytes(bs)).is_some() {
        let data = tape::bytes(3, 0xF1AA, bs + 1);
        let mut o = vec![0u8; bs + 1];
        ensure!(obj.try_apply(ApplyKind::Inout, &data, &mut o).is_ok(), format!("C10/apply-rejected/{ty}"), "final {} bytes at block {} failed [{}]", bs + 1, q.blk, hist.join(" "));
        let want = model.apply_at(q.blk, q.off, &data);
        ensure_eq_bytes!(o, want, format!("C10/keystream-at-position/{ty}"), "final bytes at block {} offset {} [{}]", q.blk, q.off, hist.join(" "));
    }
    r.nontrivial = (seeks >= 2 && data_between && interesting_seek) || far;
    r.label_if(far, "position>2^32");
    r.label_if(seeks >= 2, "seeks>=2");
    r.d(|| format!("{ty} key={} iv={} history: {}", tape::hex_short(&key), tape::hex_short(&iv), hist.join(" ")));
    Ok(())
}
