//! C04 — CTR keystream uses the documented counter-block layout in all six flavours.
//!
//! Oracle: `ks_i = E(layout(IV, i))` with `layout` written from the statement; output is the
//! input XORed with that keystream, at block indices anywhere in `[0, 2^w - 1)`.

use crate::common::*;
use crate::model::KsModel;
use crate::{ensure, ensure_eq_bytes, pick};
use vp_base::obj::*;
use vp_base::tape::{self, Tape};

pub const RULE: &str = "tape -> flavour (32/64/128-bit, BE/LE), cipher config whose block size is a multiple of the counter size \
(4..64 bytes, toy + AES/Kuznyechik/Magma/BelT), key, IV with counter field in {pattern, 0, 2^w-1-j, 2^8k-1-j, random} and nonce bytes \
random/FF/00, start block index in {0, small, 2^8k+-2, random, 2^w-9-j}, byte offset inside the block, reached by try_seek::<T> or \
set_block_pos+from_core, then <= 6 blocks of data in generated chunks; oracle = reference layout + E; non-trivial = counter field crosses \
a byte carry or wraps 2^w inside the request, or block index >= 2^16; distinct by hash of decoded values";

pub fn check(ctx: &Ctx, t: &mut Tape<'_>, r: &mut Report) -> CheckResult {
    let (w, be) = t.pick(&[(32u32, true), (32, false), (64, true), (64, false), (128, true), (128, false)]);
    let kind = StreamKind::Ctr(w, be);
    let suite = pick!(ctx, t, r, |s| s.has_stream(kind));
    let f = suite.stream(kind).unwrap();
    let bs = suite.info.bs;
    let key = gen_key(t, suite);
    let iv = gen_ctr_iv(t, bs, w, be);
    let blk = gen_block_index(t, w, 8);
    let off = if t.chance(128) { t.idx(bs) } else { 0 };
    let p = Pos { blk, off };
    let reach = gen_reach(t, p, bs);
    let mut len = gen_msg_len(t, bs, 6);
    // the request must stay inside the keystream (what happens at its end is C11's business)
    let lim: u128 = if w == 128 { u128::MAX } else { (1u128 << w) - 1 };
    let room = (lim - blk).saturating_mul(bs as u128).saturating_sub(off as u128);
    if (len as u128) > room {
        len = room as usize;
    }
    let data = tape::gen_bytes(t, len);
    let cuts = gen_cuts(t, len, bs, 4);
    let kinds = gen_apply_kinds(t, 4);
    let pre = gen_prefill_kind(t);
    let ty = f.type_name();
    r.d(|| format!("{ty} key={} iv={} start=(block {blk}, offset {off}) via {reach:?} len={len} cuts={} data={}", tape::hex_short(&key), tape::hex_short(&iv), describe_cuts(&cuts), tape::hex_short(&data)));

    // classify: does the counter field carry across a byte or wrap inside the request?
    let wb = (w / 8) as usize;
    let mask: u128 = if w == 128 { u128::MAX } else { (1u128 << w) - 1 };
    let mut field: u128 = 0;
    for k in 0..wb {
        let byte = if be { iv[bs - 1 - k] } else { iv[k] } as u128;
        field |= byte << (8 * k);
    }
    let nblocks = ((off + len).div_ceil(bs)) as u128;
    let first = field.wrapping_add(blk) & mask;
    let last = field.wrapping_add(blk).wrapping_add(nblocks.saturating_sub(1)) & mask;
    let wraps = nblocks > 0 && last < first;
    let carries = nblocks > 0 && (first >> 8) != (last >> 8);
    r.nontrivial = wraps || carries || blk >= 1 << 16;
    r.label_if(wraps, "field-wraps-in-request");
    r.label_if(carries, "byte-carry-in-request");
    r.label_if(blk >= 1 << 16, "index>=2^16");
    r.label_if(field.wrapping_add(blk) & mask < field, "field-wrapped-before-start");
    r.label_if(matches!(reach, Reach::SetBlockPos), "set_block_pos");
    r.label_if(!suite.info.is_toy, "real-cipher");
    r.label_if(off != 0, "offset-in-block");
    r.label_if(bs != 16, "bs!=16");

    let c = (suite.keyed)(&key);
    let model = KsModel::new(c.as_ref(), kind, &iv);
    // whole blocks from a block boundary can also be driven through the block-level core directly
    let via_core = t.chance(64);
    // every constructor path of the wrapper and of the core must start the same counter sequence
    let how = ctor_pick(t);
    r.label_if(how != Ctor::New, "slice-or-inner-constructor");
    if via_core && off == 0 && len % bs == 0 {
        r.label("core-level");
        let mut core = f.make_core(how, &key, &iv).expect("harness: ctor");
        core.set_block_pos(blk).ok_or_else(|| Violation { sig: format!("C04/not-seekable/{ty}"), msg: "core cannot be positioned".into() })?;
        let mut out = Vec::new();
        let mut o = 0;
        for (i, cut) in cuts.iter().enumerate() {
            // round each cut down to whole blocks; the last piece takes the rest
            let take = if i + 1 == cuts.len() { len - o } else { (cut / bs) * bs };
            let take = take.min(len - o);
            let inp = &data[o..o + take];
            let mut ob = prefill(pre.0, pre.1 ^ i as u32, inp);
            let ck = CoreKind::ALL[(kinds.get(i).map(|k| *k as usize).unwrap_or(0) + 2 * i) % CoreKind::ALL.len()];
            core.process(ck, inp, &mut ob, &mut Sched::new([i as u8, 1, 2, 3, 1, 0]));
            out.extend_from_slice(&ob);
            o += take;
        }
        let want = model.apply_at(blk, 0, &data);
        ensure_eq_bytes!(out, want, format!("C04/output-core/{}", f.core_type_name()), "{len} bytes from block {blk} through the block-level core");
        ensure!(core.get_block_pos() == Some(blk + (len / bs) as u128), format!("C04/block-pos/{}", f.core_type_name()), "core block position {:?} after {} blocks from {blk}", core.get_block_pos(), len / bs);
        return Ok(());
    }
    // ... and a message with a partial tail through the core's one-shot `try_apply_keystream_partial`
    // (far from the end of the keystream only: near it that provided method is known finding F3)
    if via_core && off == 0 && len % bs != 0 && lim - blk > 1000 {
        r.label("core-partial");
        let mut core = f.make_core(how, &key, &iv).expect("harness: ctor");
        core.set_block_pos(blk).ok_or_else(|| Violation { sig: format!("C04/not-seekable/{ty}"), msg: "core cannot be positioned".into() })?;
        let mut out = prefill(pre.0, pre.1, &data);
        ensure!(core.try_apply_partial(&data, &mut out).is_ok(), format!("C04/partial-rejected/{}", f.core_type_name()), "try_apply_keystream_partial of {len} bytes at block {blk}, far from the end, failed");
        let want = model.apply_at(blk, 0, &data);
        ensure_eq_bytes!(out, want, format!("C04/output-core-partial/{}", f.core_type_name()), "{len} bytes from block {blk} through try_apply_keystream_partial");
        return Ok(());
    }
    let mut s = position_stream(f, &model, &key, &iv, p, bs, reach, how, "C04")?;
    let out = run_stream(s.as_mut(), &data, &cuts, &kinds, pre).map_err(|v| with_sig("C04", &ty, v))?;
    let want = model.apply_at(blk, off, &data);
    ensure_eq_bytes!(out, want, format!("C04/output/{ty}"), "{len} bytes from block {blk} offset {off} (counter field {first:#x}..{last:#x})");
    // the core's IV state is the next counter block
    let endp = p.advance(len, bs).expect("harness: in range");
    if let Some(st) = s.core_iv_state() {
        let want = model.iv_state_after(endp.blocks_generated());
        ensure_eq_bytes!(st, want, format!("C04/next-counter-block/{ty}"), "iv_state of the core after reaching block {}", endp.blocks_generated());
    }
    ensure!(s.core_block_pos() == Some(endp.blocks_generated()), format!("C04/block-pos/{ty}"), "core block position {:?}, want {}", s.core_block_pos(), endp.blocks_generated());
    Ok(())
}
