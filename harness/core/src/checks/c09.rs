//! C09 — exported IV state resumes the stream and equals the public chaining value.
//!
//! Oracle: `run(m[..k]); s = iv_state(); fresh(key, s).run(m[k..])` concatenates to `run(m)`;
//! `s` equals the model's chaining value; encryptor and decryptor report equal states on
//! corresponding data; buffered CFB resumes from `(block, pos)` at any byte.

use crate::common::*;
use crate::model::{self, KsModel};
use crate::{ensure, ensure_eq_bytes, pick};
use vp_base::obj::*;
use vp_base::tape::{self, Tape};

pub const RULE: &str = "tape -> (block-level mode enc/dec | stream core CTR x6/OFB/BelT | byte-level wrapper at a block boundary | buffered CFB at \
any byte), cipher config, key, IV (CTR: counter field near wrap), message, 1..3 export/import hops at generated block (byte) indices, call \
kinds around the cut; oracle = uninterrupted run, model chaining value, enc-state = dec-state; non-trivial = a cut strictly inside the message \
(buffered CFB: inside a block); distinct by hash of decoded values";

pub fn check(ctx: &Ctx, t: &mut Tape<'_>, r: &mut Report) -> CheckResult {
    match t.pick(&[0u8, 0, 1, 1, 2, 3]) {
        0 => block_modes(ctx, t, r),
        1 => stream_cores(ctx, t, r),
        2 => wrappers(ctx, t, r),
        _ => buffered(ctx, t, r),
    }
}

fn gen_hops(t: &mut Tape<'_>, n: usize) -> Vec<usize> {
    // 1..3 cut points in 0..=n, sorted (fixed 4 bytes)
    let m = 1 + t.idx(3);
    let mut v: Vec<usize> = (0..3).map(|_| t.idx(n + 1)).collect();
    v.truncate(m);
    v.sort();
    v
}

fn block_modes(ctx: &Ctx, t: &mut Tape<'_>, r: &mut Report) -> CheckResult {
    let mode = t.pick(&Mode::ALL);
    let dir = t.pick(&[Direction::Enc, Direction::Dec]);
    // CFB's IvState needs D, so pick a cipher with both directions for it
    let suite = pick!(ctx, t, r, |s| s.has_dec || !(mode.needs_dec(dir) || mode == Mode::Cfb));
    let f = suite.block_mode(mode, dir).unwrap();
    let unit = f.unit();
    let bs = suite.info.bs;
    let par = suite.info.par;
    let key = gen_key(t, suite);
    let iv = gen_iv(t, f.iv_len());
    let n = if unit == 1 { gen_msg_len(t, bs, 4) } else { gen_nblocks(t, par, 24) };
    let data = tape::gen_bytes(t, n * unit);
    let hops = gen_hops(t, n);
    let pre = gen_prefill_kind(t);
    let pieces_all = gen_pieces(t, n, 4, par);
    let ty = f.type_name();
    r.label("block-mode");
    r.nontrivial = hops.iter().any(|k| *k > 0 && *k < n);
    r.label_if(hops.len() >= 2, "multi-hop");
    r.d(|| format!("{ty} key={} iv={} n={n} hops={hops:?} data={} pieces=[{}]", tape::hex_short(&key), tape::hex_short(&iv), tape::hex_short(&data), describe_pieces(&pieces_all)));
    let c = (suite.keyed)(&key);
    // uninterrupted run
    let mut whole = f.make(Ctor::New, &key, &iv).expect("harness: ctor");
    let want = run_pieces(whole.as_mut(), unit, &data, &pieces_all, pre).map_err(|v| with_sig("C09", &ty, v))?.out;
    // hop run
    let mut cur = f.make(Ctor::New, &key, &iv).expect("harness: ctor");
    let mut got = Vec::new();
    let mut chain = iv.clone();
    let mut at = 0;
    let mut bounds = hops.clone();
    bounds.push(n);
    for (hi, k) in bounds.iter().enumerate() {
        let seg = &data[at * unit..k * unit];
        // feed this segment with a call kind from the tape-driven pieces (reuse the first piece's kind per hop)
        let kind = pieces_all.get(hi % pieces_all.len()).map(|p| p.kind).unwrap_or(CallKind::Blocks);
        let mut o = prefill(pre.0, pre.1 ^ hi as u32, seg);
        let mut sched = Sched::new(pieces_all.get(hi % pieces_all.len()).map(|p| p.sched).unwrap_or([0; 6]));
        ensure!(cur.process(kind, seg, &mut o, &mut sched).is_ok(), format!("C09/equal-length-call-rejected/{ty}"), "{kind:?}");
        got.extend_from_slice(&o);
        let (_, mc) = model::block_mode(c.as_ref(), mode, dir, &chain, seg);
        chain = mc;
        at = *k;
        if hi + 1 == bounds.len() {
            break;
        }
        let s = cur.iv_state().ok_or_else(|| Violation { sig: format!("C09/no-ivstate/{ty}"), msg: "type does not report an IV state".into() })?;
        ensure_eq_bytes!(s, chain, format!("C09/state-value/{ty}"), "iv_state() after {k} of {n} units is not the public chaining value");
        cur = f.make(ctor_pick(t), &key, &s).map_err(|_| Violation { sig: format!("C09/ctor-rejected/{ty}"), msg: "exported state rejected as IV".into() })?;
    }
    ensure_eq_bytes!(got, want, format!("C09/resume/{ty}"), "export/import at {hops:?} of {n} units");
    // encryptor and decryptor report equal states on corresponding data
    if dir == Direction::Enc {
        if let Some(fd) = suite.block_mode(mode, Direction::Dec) {
            let mut e = f.make(Ctor::New, &key, &iv).expect("harness: ctor");
            let ct = run_simple(e.as_mut(), &data);
            let mut d = fd.make(Ctor::New, &key, &iv).expect("harness: ctor");
            let _ = run_simple(d.as_mut(), &ct);
            let (se, sd) = (e.iv_state(), d.iv_state());
            if se.is_some() && sd.is_some() {
                r.label("enc-dec-state");
                ensure!(se == sd, format!("C09/enc-dec-state/{ty}"), "after {n} units the encryptor reports {} and the decryptor {}", tape::hex_short(se.as_ref().unwrap()), tape::hex_short(sd.as_ref().unwrap()));
            }
        }
    }
    Ok(())
}

fn stream_cores(ctx: &Ctx, t: &mut Tape<'_>, r: &mut Report) -> CheckResult {
    let suite = pick!(ctx, t, r, |_| true);
    let f = &suite.streams[t.idx(suite.streams.len())];
    let kind = f.kind();
    // BelT's IvState needs D
    if kind == StreamKind::Belt && !suite.info.has_dec {
        r.label("belt-enc-only-skipped");
        return Ok(());
    }
    let bs = suite.info.bs;
    let par = suite.info.par;
    let key = gen_key(t, suite);
    let c = (suite.keyed)(&key);
    let iv = gen_stream_iv(t, kind, bs, c.as_ref(), suite.info.has_dec);
    let n = gen_nblocks(t, par, 20);
    let data = tape::gen_bytes(t, n * bs);
    let hops = gen_hops(t, n);
    let ck = CoreKind::ALL[t.idx(CoreKind::ALL.len())];
    let ty = f.core_type_name();
    r.label("stream-core");
    r.nontrivial = hops.iter().any(|k| *k > 0 && *k < n);
    r.label_if(hops.len() >= 2, "multi-hop");
    r.d(|| format!("{ty} key={} iv={} n={n} hops={hops:?} kind={ck:?} data={}", tape::hex_short(&key), tape::hex_short(&iv), tape::hex_short(&data)));
    let model = KsModel::new(c.as_ref(), kind, &iv);
    let want = model.apply_at(0, 0, &data);
    let mut cur = f.make_core(Ctor::New, &key, &iv).expect("harness: ctor");
    let mut got = Vec::new();
    let mut at = 0;
    let mut bounds = hops.clone();
    bounds.push(n);
    for (hi, k) in bounds.iter().enumerate() {
        let seg = &data[at * bs..k * bs];
        let mut o = vec![0xA5u8; seg.len()];
        let mut s = Sched::new([3, 1, 0, 2, 1, 3]);
        cur.process(ck, seg, &mut o, &mut s);
        got.extend_from_slice(&o);
        at = *k;
        if hi + 1 == bounds.len() {
            break;
        }
        let st = cur.iv_state().ok_or_else(|| Violation { sig: format!("C09/no-ivstate/{ty}"), msg: "core does not report an IV state".into() })?;
        let mv = model.iv_state_after(*k as u128);
        ensure_eq_bytes!(st, mv, format!("C09/state-value/{ty}"), "iv_state() after {k} of {n} blocks is not the public chaining value");
        cur = f.make_core(ctor_pick(t), &key, &st).map_err(|_| Violation { sig: format!("C09/ctor-rejected/{ty}"), msg: "exported state rejected as IV".into() })?;
    }
    ensure_eq_bytes!(got, want, format!("C09/resume/{ty}"), "export/import at {hops:?} of {n} blocks");
    // Exporting is an observation. Export, reposition without producing any data, export again: the
    // second value must be the chaining value of the new position (a remembered first answer must not
    // survive the repositioning), and a fresh instance built from it continues from there.
    // (read last so that older tapes keep their meaning)
    let tgt = t.idx(48) as u128 + if t.chance(64) { 1u128 << 33 } else { 0 };
    if kind.seekable() && (kind.width().unwrap_or(128) > 32 || tgt < 1 << 32) {
        r.label("export-reposition-export");
        // (an instance built from the original IV: block positions count from there)
        let mut cur = f.make_core(Ctor::New, &key, &iv).expect("harness: ctor");
        let warm = n.min(2) * bs;
        let mut o = vec![0u8; warm];
        cur.process(ck, &data[..warm], &mut o, &mut Sched::new([1, 0, 2, 3, 1, 0]));
        let _ = cur.iv_state();
        cur.set_block_pos(tgt).ok_or_else(|| Violation { sig: format!("C09/not-seekable/{ty}"), msg: "core cannot be positioned".into() })?;
        let st = cur.iv_state().ok_or_else(|| Violation { sig: format!("C09/no-ivstate/{ty}"), msg: "core does not report an IV state".into() })?;
        ensure_eq_bytes!(st, model.iv_state_after(tgt), format!("C09/state-value-after-reposition/{ty}"), "iv_state() after iv_state(); set_block_pos({tgt}) is not the chaining value of block {tgt}");
        let mut fresh = f.make_core(Ctor::New, &key, &st).map_err(|_| Violation { sig: format!("C09/ctor-rejected/{ty}"), msg: "exported state rejected as IV".into() })?;
        let z = vec![0u8; 2 * bs];
        let mut o = vec![0x5Au8; 2 * bs];
        fresh.process(CoreKind::ApplyBlockInout, &z, &mut o, &mut Sched::new([0; 6]));
        ensure_eq_bytes!(o, model.apply_at(tgt, 0, &z), format!("C09/resume-after-reposition/{ty}"), "two blocks from the state exported at block {tgt}");
    }
    Ok(())
}

fn wrappers(ctx: &Ctx, t: &mut Tape<'_>, r: &mut Report) -> CheckResult {
    let suite = pick!(ctx, t, r, |_| true);
    let f = &suite.streams[t.idx(suite.streams.len())];
    let kind = f.kind();
    if kind == StreamKind::Belt && !suite.info.has_dec {
        r.label("belt-enc-only-skipped");
        return Ok(());
    }
    let bs = suite.info.bs;
    let key = gen_key(t, suite);
    let kc = (suite.keyed)(&key);
    let iv = gen_stream_iv(t, kind, bs, kc.as_ref(), suite.info.has_dec);
    let n = gen_nblocks(t, suite.info.par, 12);
    let extra = t.idx(bs); // trailing partial block after the last boundary
    let data = tape::gen_bytes(t, n * bs + extra);
    let k = t.idx(n + 1);
    let cuts1 = gen_cuts(t, k * bs, bs, 4);
    let cuts2 = gen_cuts(t, data.len() - k * bs, bs, 4);
    let ty = f.type_name();
    r.label("wrapper");
    r.nontrivial = k > 0 && k < n;
    r.d(|| format!("{ty} key={} iv={} len={} cut at block {k} cuts={} / {} data={}", tape::hex_short(&key), tape::hex_short(&iv), data.len(), describe_cuts(&cuts1), describe_cuts(&cuts2), tape::hex_short(&data)));
    let mut whole = f.make(Ctor::New, &key, &iv).expect("harness: ctor");
    let mut want = vec![0u8; data.len()];
    ensure!(whole.try_apply(ApplyKind::Inout, &data, &mut want).is_ok(), format!("C09/apply-rejected/{ty}"), "single call failed");
    let mut a = f.make(Ctor::New, &key, &iv).expect("harness: ctor");
    let kinds = [ApplyKind::InPlace, ApplyKind::B2b, ApplyKind::Inout, ApplyKind::InPlace];
    let mut got = run_stream(a.as_mut(), &data[..k * bs], &cuts1, &kinds, (3, 7)).map_err(|v| with_sig("C09", &ty, v))?;
    let st = a.core_iv_state().ok_or_else(|| Violation { sig: format!("C09/no-ivstate/{ty}"), msg: "core does not report an IV state".into() })?;
    let mut b = f.make(ctor_pick(t), &key, &st).map_err(|_| Violation { sig: format!("C09/ctor-rejected/{ty}"), msg: "exported state rejected as IV".into() })?;
    got.extend(run_stream(b.as_mut(), &data[k * bs..], &cuts2, &kinds, (1, 3)).map_err(|v| with_sig("C09", &ty, v))?);
    ensure_eq_bytes!(got, want, format!("C09/resume/{ty}"), "export at block {k}, import into a fresh byte-level instance");
    Ok(())
}

fn buffered(ctx: &Ctx, t: &mut Tape<'_>, r: &mut Report) -> CheckResult {
    let dir = t.pick(&[Direction::Enc, Direction::Dec]);
    let suite = pick!(ctx, t, r, |_| true);
    let f = suite.buf(dir).unwrap();
    let bs = suite.info.bs;
    let key = gen_key(t, suite);
    let iv = gen_iv(t, bs);
    let len = gen_msg_len(t, bs, 6);
    let data = tape::gen_bytes(t, len);
    let hops = gen_hops(t, len);
    let cuts_whole = gen_cuts(t, len, bs, 5);
    let ty = f.type_name();
    r.label("buffered-cfb");
    r.nontrivial = hops.iter().any(|k| *k % bs != 0 && *k < len);
    r.label_if(hops.iter().any(|k| *k % bs == 0 && *k > 0 && *k < len), "cut-on-boundary");
    r.label_if(hops.len() >= 2, "multi-hop");
    r.d(|| format!("{ty} key={} iv={} len={len} hops at bytes {hops:?} cuts={} data={}", tape::hex_short(&key), tape::hex_short(&iv), describe_cuts(&cuts_whole), tape::hex_short(&data)));
    let mut whole = f.make(Ctor::New, &key, &iv).expect("harness: ctor");
    let want = run_buf(whole.as_mut(), &data, &cuts_whole);
    let mut cur = f.make(Ctor::New, &key, &iv).expect("harness: ctor");
    let mut got = Vec::new();
    let mut at = 0;
    let mut bounds = hops.clone();
    bounds.push(len);
    for (hi, k) in bounds.iter().enumerate() {
        let seg = &data[at..*k];
        // unequal chunks around the cut: split the segment in two at a tape-independent point
        let mid = seg.len() / 3;
        got.extend(run_buf(cur.as_mut(), seg, &[mid, seg.len() - mid]));
        at = *k;
        if hi + 1 == bounds.len() {
            break;
        }
        let (blk, pos) = cur.get_state();
        cur = f.from_state(&key, &blk, pos);
    }
    ensure_eq_bytes!(got, want, format!("C09/resume/{ty}"), "get_state/from_state at bytes {hops:?}");
    Ok(())
}
