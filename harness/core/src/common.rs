//! Shared pieces of the checks: outcome types, generators built on the tape, schedule runner.

use std::fmt::Write as _;
use vp_base::obj::*;
use vp_base::tape::{self, Tape};

#[derive(Clone, Debug)]
pub struct Violation {
    /// stable signature: which relation failed, for which type
    pub sig: String,
    pub msg: String,
}

pub type CheckResult = Result<(), Violation>;

#[macro_export]
macro_rules! ensure {
    ($cond:expr, $sig:expr, $($fmt:tt)*) => {
        if !($cond) {
            return Err($crate::common::Violation { sig: ($sig).to_string(), msg: format!($($fmt)*) });
        }
    };
}

#[macro_export]
macro_rules! ensure_eq_bytes {
    ($a:expr, $b:expr, $sig:expr, $($fmt:tt)*) => {
        if $a[..] != $b[..] {
            let at = $a.iter().zip($b.iter()).position(|(x, y)| x != y).unwrap_or($a.len().min($b.len()));
            return Err($crate::common::Violation {
                sig: ($sig).to_string(),
                msg: format!("{}: first difference at byte {} (got {} / want {})", format!($($fmt)*), at,
                    vp_base::tape::hex_short(&$a[..]), vp_base::tape::hex_short(&$b[..])),
            });
        }
    };
}

/// Per-case bookkeeping filled in by a check.
#[derive(Default)]
pub struct Report {
    pub labels: Vec<&'static str>,
    pub nontrivial: bool,
    pub want_desc: bool,
    pub desc: String,
    /// sub-cases skipped because they fall into a listed known-finding region
    pub excluded_known: u32,
    /// known findings reproduced by this case (probe mode)
    pub known_hits: Vec<String>,
}

impl Report {
    pub fn new(want_desc: bool) -> Self {
        Report {
            want_desc,
            ..Default::default()
        }
    }
    #[inline]
    pub fn label(&mut self, l: &'static str) {
        if !self.labels.contains(&l) {
            self.labels.push(l);
        }
    }
    #[inline]
    pub fn label_if(&mut self, c: bool, l: &'static str) {
        if c {
            self.label(l)
        }
    }
    #[inline]
    pub fn d(&mut self, f: impl FnOnce() -> String) {
        if self.want_desc {
            if !self.desc.is_empty() {
                self.desc.push_str("; ");
            }
            let _ = write!(self.desc, "{}", f());
        }
    }
}

pub struct Ctx {
    pub suites: Vec<Suite>,
    /// signatures listed as `known:` in KNOWN_FINDINGS.txt that still reproduce on this tree
    pub active_known: Vec<String>,
}

impl Ctx {
    pub fn new() -> Self {
        Ctx {
            suites: crate::registry::all_suites(),
            active_known: Vec::new(),
        }
    }
    pub fn known(&self, sig: &str) -> bool {
        self.active_known.iter().any(|s| s == sig)
    }
    pub fn pick_suite<'a>(&'a self, t: &mut Tape<'_>, f: impl Fn(&Suite) -> bool) -> &'a Suite {
        let v: Vec<&Suite> = self.suites.iter().filter(|s| f(s)).collect();
        assert!(!v.is_empty(), "harness: no suite matches the filter");
        v[t.idx(v.len())]
    }
    pub fn suite_named(&self, name: &str) -> Option<&Suite> {
        self.suites.iter().find(|s| s.info.name == name)
    }
    /// the same toy block function with parallel width 1
    pub fn width1_of(&self, s: &Suite) -> Option<&Suite> {
        if !s.info.is_toy || !s.info.has_dec {
            return None;
        }
        self.suites
            .iter()
            .find(|o| o.info.is_toy && o.info.has_dec && o.info.bs == s.info.bs && o.info.par == 1)
    }
}

// ---------------------------------------------------------------------------------------
// generators

pub fn gen_key(t: &mut Tape<'_>, s: &Suite) -> Vec<u8> {
    tape::gen_bytes(t, s.info.key_len)
}

pub fn gen_iv(t: &mut Tape<'_>, len: usize) -> Vec<u8> {
    tape::gen_bytes(t, len)
}

/// Block count with thresholds around the parallel width; `0` is simplest.
pub fn gen_nblocks(t: &mut Tape<'_>, par: usize, max: usize) -> usize {
    let b = t.byte() as usize;
    let p = par.max(1);
    let table = [
        0,
        1,
        2,
        3,
        p.saturating_sub(1),
        p,
        p + 1,
        2 * p,
        2 * p + 1,
        3 * p + 2,
        4 * p + 1,
        5 * p - 1,
    ];
    let n = if b < 96 {
        table[(b * table.len()) / 96]
    } else {
        // uniform over 0..=max
        ((b - 96) * (max + 1)) / 160
    };
    n.min(max)
}

#[derive(Clone, Debug)]
pub struct Piece {
    pub blocks: usize,
    pub kind: CallKind,
    pub sched: [u8; 6],
}

/// A composition of `n` blocks into at most `max_pieces` calls, each with its call kind and
/// backend-schedule bytes.  Fixed-size records (8 bytes each): the tape layout does not
/// depend on the values.
pub fn gen_pieces(t: &mut Tape<'_>, n: usize, max_pieces: usize, par: usize) -> Vec<Piece> {
    let m = 1 + t.idx(max_pieces);
    let mut left = n;
    let mut v = Vec::new();
    for i in 0..m {
        let share = t.byte() as usize;
        let kind = CallKind::ALL[t.idx(CallKind::ALL.len())];
        let mut sched = [0u8; 6];
        for b in sched.iter_mut() {
            *b = t.byte();
        }
        let blocks = if i + 1 == m {
            left
        } else {
            // thresholds: 0 → everything that is left; small shares → few blocks; allow empty pieces
            match share {
                0 => left,
                1..=31 => 0usize.min(left),
                32..=95 => 1usize.min(left),
                96..=127 => par.min(left),
                128..=159 => (par + 1).min(left),
                _ => ((share - 160) * (left + 1)) / 96,
            }
        };
        let blocks = blocks.min(left);
        left -= blocks;
        v.push(Piece { blocks, kind, sched });
    }
    v
}

pub fn describe_pieces(p: &[Piece]) -> String {
    p.iter()
        .map(|x| format!("{}x{:?}", x.blocks, x.kind))
        .collect::<Vec<_>>()
        .join(",")
}

/// Output-buffer pre-fill patterns: 0 zeros, 1 FF, 2 copy of the input, 3 pseudo-random.
pub fn prefill(kind: u8, seed: u32, inp: &[u8]) -> Vec<u8> {
    match kind {
        0 => vec![0; inp.len()],
        1 => vec![0xFF; inp.len()],
        2 => inp.to_vec(),
        _ => tape::bytes(3, seed ^ 0x5EED_0F11, inp.len()),
    }
}

pub fn gen_prefill_kind(t: &mut Tape<'_>) -> (u8, u32) {
    let b = t.byte();
    let k = match b {
        0..=31 => 0,
        32..=63 => 1,
        64..=111 => 2,
        _ => 3,
    };
    (k, b as u32 * 0x0101_0101)
}

pub struct RunOut {
    pub out: Vec<u8>,
    /// iv_state after each piece (None if the type has no IvState)
    pub states: Vec<Option<Vec<u8>>>,
    pub trace: String,
}

/// Drive `obj` through `pieces` over `data` (whole mode blocks of `unit` bytes).
pub fn run_pieces(
    obj: &mut dyn BlockModeObj,
    unit: usize,
    data: &[u8],
    pieces: &[Piece],
    pre: (u8, u32),
) -> Result<RunOut, Violation> {
    let mut out = Vec::with_capacity(data.len());
    let mut states = Vec::new();
    let mut trace = String::new();
    let mut off = 0;
    for p in pieces {
        let len = p.blocks * unit;
        let inp = &data[off..off + len];
        let mut o = prefill(pre.0, pre.1.wrapping_add(off as u32), inp);
        let mut sched = Sched::new(p.sched);
        let r = obj.process(p.kind, inp, &mut o, &mut sched);
        ensure!(
            r.is_ok(),
            "equal-length-call-rejected",
            "{:?} on {} blocks with equal-length buffers returned an error",
            p.kind,
            p.blocks
        );
        if !sched.trace.is_empty() {
            trace.push_str(&sched.trace);
            trace.push('|');
        }
        out.extend_from_slice(&o);
        states.push(obj.iv_state());
        off += len;
    }
    assert_eq!(off, data.len(), "harness: pieces do not cover the data");
    Ok(RunOut { out, states, trace })
}

pub fn ctor_pick(t: &mut Tape<'_>) -> Ctor {
    Ctor::ALL[t.idx(4)]
}

/// Which block modes exist for this suite (enc-only suites lack the CBC/PCBC/IGE decryptors).
pub fn modes_for(s: &Suite) -> Vec<(Mode, Direction)> {
    s.block_modes.iter().map(|f| (f.mode(), f.dir())).collect()
}
