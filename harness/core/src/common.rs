//! Shared pieces of the checks: outcome types, generators built on the tape, schedule runner.

use std::fmt::Write as _;
use vp_base::obj::*;
use vp_base::tape::{self, Tape};

#[derive(Clone, Debug)]
pub struct Violation {
    /// stable signature: which relation failed, for which type
    pub sig: String,
    pub msg: String,
}

pub type CheckResult = Result<(), Violation>;

#[macro_export]
macro_rules! ensure {
    ($cond:expr, $sig:expr, $($fmt:tt)*) => {
        if !($cond) {
            return Err($crate::common::Violation { sig: ($sig).to_string(), msg: format!($($fmt)*) });
        }
    };
}

#[macro_export]
macro_rules! ensure_eq_bytes {
    ($a:expr, $b:expr, $sig:expr, $($fmt:tt)*) => {
        if $a[..] != $b[..] {
            let at = $a.iter().zip($b.iter()).position(|(x, y)| x != y).unwrap_or($a.len().min($b.len()));
            return Err($crate::common::Violation {
                sig: ($sig).to_string(),
                msg: format!("{}: first difference at byte {} (got {} / want {})", format!($($fmt)*), at,
                    vp_base::tape::hex_short(&$a[..]), vp_base::tape::hex_short(&$b[..])),
            });
        }
    };
}

/// Per-case bookkeeping filled in by a check.
#[derive(Default)]
pub struct Report {
    pub labels: Vec<&'static str>,
    pub nontrivial: bool,
    pub want_desc: bool,
    pub desc: String,
    /// sub-cases skipped because they fall into a listed known-finding region
    pub excluded_known: u32,
    /// known findings reproduced by this case (probe mode)
    pub known_hits: Vec<String>,
}

impl Report {
    pub fn new(want_desc: bool) -> Self {
        Report {
            want_desc,
            ..Default::default()
        }
    }
    #[inline]
    pub fn label(&mut self, l: &'static str) {
        if !self.labels.contains(&l) {
            self.labels.push(l);
        }
    }
    #[inline]
    pub fn label_if(&mut self, c: bool, l: &'static str) {
        if c {
            self.label(l)
        }
    }
    #[inline]
    pub fn d(&mut self, f: impl FnOnce() -> String) {
        if self.want_desc {
            if !self.desc.is_empty() {
                self.desc.push_str("; ");
            }
            let _ = write!(self.desc, "{}", f());
        }
    }
}

pub struct Ctx {
    pub metas: &'static [SuiteMeta],
    /// same order as `metas`; `None` = not compiled into this build (`small` feature)
    pub slots: Vec<Option<Suite>>,
    /// signatures listed as `known:` in KNOWN_FINDINGS.txt that still reproduce on this tree
    pub active_known: Vec<String>,
}

impl Ctx {
    pub fn new() -> Self {
        let slots = crate::registry::all_suites();
        let metas = crate::registry::META;
        assert_eq!(slots.len(), metas.len(), "harness: registry tables out of sync");
        for (m, s) in metas.iter().zip(slots.iter()) {
            if let Some(s) = s {
                assert!(m.name == s.info.name && m.bs == s.info.bs && m.has_dec == s.info.has_dec && m.key_len == s.info.key_len, "harness: META does not describe {}", s.info.name);
                assert!(!m.is_toy || m.par == s.info.par, "harness: META width of {}", s.info.name);
                for k in STREAM_KINDS_ALL {
                    assert_eq!(m.has_stream(k), s.stream(k).is_some(), "harness: META streams of {}", s.info.name);
                }
                assert_eq!(m.has_cts(), !s.cts.is_empty(), "harness: META cts of {}", s.info.name);
            }
        }
        Ctx {
            metas,
            slots,
            active_known: Vec::new(),
        }
    }
    pub fn suites(&self) -> impl Iterator<Item = &Suite> {
        self.slots.iter().filter_map(|s| s.as_ref())
    }
    pub fn known(&self, sig: &str) -> bool {
        self.active_known.iter().any(|s| s == sig)
    }
    /// Choose a configuration among those whose static description satisfies `f`. The choice is a
    /// function of the tape and the *full* table, so a tape means the same case in every build;
    /// `None` = the chosen configuration is not compiled into this build.
    pub fn pick_suite<'a>(&'a self, t: &mut Tape<'_>, f: impl Fn(&SuiteMeta) -> bool) -> Option<&'a Suite> {
        let v: Vec<usize> = (0..self.metas.len()).filter(|i| f(&self.metas[*i])).collect();
        assert!(!v.is_empty(), "harness: no suite matches the filter");
        self.slots[v[t.idx(v.len())]].as_ref()
    }
    pub fn suite_named(&self, name: &str) -> Option<&Suite> {
        self.suites().find(|s| s.info.name == name)
    }
    fn width1_index(&self, bs: usize) -> Option<usize> {
        self.metas.iter().position(|o| o.is_toy && o.has_dec && o.bs == bs && o.par == 1)
    }
    /// does the table contain the same toy block function with parallel width 1?
    pub fn has_width1(&self, m: &SuiteMeta) -> bool {
        m.is_toy && m.has_dec && self.width1_index(m.bs).is_some()
    }
    /// the same toy block function with parallel width 1 (if compiled into this build)
    pub fn width1_of(&self, s: &Suite) -> Option<&Suite> {
        if !s.info.is_toy || !s.info.has_dec {
            return None;
        }
        self.slots[self.width1_index(s.info.bs)?].as_ref()
    }
}

/// `let suite = pick!(ctx, t, r, |m| filter);` - returns early (trivial pass) when the chosen
/// configuration is not part of this build.
#[macro_export]
macro_rules! pick {
    ($ctx:expr, $t:expr, $r:expr, $f:expr) => {
        match $ctx.pick_suite($t, $f) {
            Some(s) => s,
            None => {
                $r.label("config-not-in-this-build");
                $r.nontrivial = false;
                return Ok(());
            }
        }
    };
}

// ---------------------------------------------------------------------------------------
// generators

pub fn gen_key(t: &mut Tape<'_>, s: &Suite) -> Vec<u8> {
    tape::gen_bytes(t, s.info.key_len)
}

pub fn gen_iv(t: &mut Tape<'_>, len: usize) -> Vec<u8> {
    tape::gen_bytes(t, len)
}

/// Block count with thresholds around the parallel width; `0` is simplest.
pub fn gen_nblocks(t: &mut Tape<'_>, par: usize, max: usize) -> usize {
    let b = t.byte() as usize;
    let p = par.max(1);
    let table = [
        0,
        1,
        2,
        3,
        p.saturating_sub(1),
        p,
        p + 1,
        2 * p,
        2 * p + 1,
        3 * p + 2,
        4 * p + 1,
        5 * p - 1,
    ];
    if b >= 252 && max >= 20 {
        // rare: block counts around 256 (narrow loop counters, many parallel groups); not capped by `max`
        return [255, 256, 257, 300][b - 252];
    }
    if p > max && max >= 20 && b < 12 {
        // a backend wider than the usual message: whole parallel groups are reached only by going beyond `max`
        return [p, p + 1, 2 * p + 1][b % 3];
    }
    let n = if b < 96 {
        table[(b * table.len()) / 96]
    } else {
        // uniform over 0..=max
        ((b - 96) * (max + 1)) / 156
    };
    n.min(max)
}

#[derive(Clone, Debug)]
pub struct Piece {
    pub blocks: usize,
    pub kind: CallKind,
    pub sched: [u8; 6],
}

/// A composition of `n` blocks into at most `max_pieces` calls, each with its call kind and
/// backend-schedule bytes.  Fixed-size records (8 bytes each): the tape layout does not
/// depend on the values.
pub fn gen_pieces(t: &mut Tape<'_>, n: usize, max_pieces: usize, par: usize) -> Vec<Piece> {
    let m = 1 + t.idx(max_pieces);
    let mut left = n;
    let mut v = Vec::new();
    for i in 0..m {
        let share = t.byte() as usize;
        let kind = t.pick(&CALL_KIND_TABLE);
        let mut sched = [0u8; 6];
        for b in sched.iter_mut() {
            *b = t.byte();
        }
        let blocks = if i + 1 == m {
            left
        } else {
            // thresholds: 0 → everything that is left; small shares → few blocks; allow empty pieces
            match share {
                0 => left,
                1..=31 => 0usize.min(left),
                32..=95 => 1usize.min(left),
                96..=127 => par.min(left),
                128..=159 => (par + 1).min(left),
                _ => ((share - 160) * (left + 1)) / 96,
            }
        };
        let blocks = blocks.min(left);
        left -= blocks;
        v.push(Piece { blocks, kind, sched });
    }
    v
}

pub fn describe_pieces(p: &[Piece]) -> String {
    p.iter()
        .map(|x| format!("{}x{:?}", x.blocks, x.kind))
        .collect::<Vec<_>>()
        .join(",")
}

/// Output-buffer pre-fill patterns: 0 zeros, 1 FF, 2 copy of the input, 3 pseudo-random.
pub fn prefill(kind: u8, seed: u32, inp: &[u8]) -> Vec<u8> {
    match kind {
        0 => vec![0; inp.len()],
        1 => vec![0xFF; inp.len()],
        2 => inp.to_vec(),
        _ => tape::bytes(3, seed ^ 0x5EED_0F11, inp.len()),
    }
}

pub fn gen_prefill_kind(t: &mut Tape<'_>) -> (u8, u32) {
    let b = t.byte();
    let k = match b {
        0..=31 => 0,
        32..=63 => 1,
        64..=111 => 2,
        _ => 3,
    };
    (k, b as u32 * 0x0101_0101)
}

pub struct RunOut {
    pub out: Vec<u8>,
    /// iv_state after each piece (None if the type has no IvState)
    pub states: Vec<Option<Vec<u8>>>,
    pub trace: String,
}

/// Drive `obj` through `pieces` over `data` (whole mode blocks of `unit` bytes).
pub fn run_pieces(
    obj: &mut dyn BlockModeObj,
    unit: usize,
    data: &[u8],
    pieces: &[Piece],
    pre: (u8, u32),
) -> Result<RunOut, Violation> {
    let mut out = Vec::with_capacity(data.len());
    let mut states = Vec::new();
    let mut trace = String::new();
    let mut off = 0;
    for p in pieces {
        let len = p.blocks * unit;
        let inp = &data[off..off + len];
        let mut o = prefill(pre.0, pre.1.wrapping_add(off as u32), inp);
        let mut sched = Sched::new(p.sched);
        let r = obj.process(p.kind, inp, &mut o, &mut sched);
        ensure!(
            r.is_ok(),
            "equal-length-call-rejected",
            "{:?} on {} blocks with equal-length buffers returned an error",
            p.kind,
            p.blocks
        );
        if !sched.trace.is_empty() {
            trace.push_str(&sched.trace);
            trace.push('|');
        }
        out.extend_from_slice(&o);
        states.push(obj.iv_state());
        off += len;
    }
    assert_eq!(off, data.len(), "harness: pieces do not cover the data");
    Ok(RunOut { out, states, trace })
}

pub fn ctor_pick(t: &mut Tape<'_>) -> Ctor {
    Ctor::ALL[t.idx(4)]
}

/// Which block modes exist for this suite (enc-only suites lack the CBC/PCBC/IGE decryptors).
pub fn modes_for(s: &Suite) -> Vec<(Mode, Direction)> {
    s.block_modes.iter().map(|f| (f.mode(), f.dir())).collect()
}

/// Call kinds with the backend-level schedule over-represented (it is the only kind that
/// reaches the mode backend without going through `cipher`'s own batching).
pub const CALL_KIND_TABLE: [CallKind; 12] = [
    CallKind::Block,
    CallKind::Blocks,
    CallKind::Backend,
    CallKind::BlocksB2b,
    CallKind::BlockB2b,
    CallKind::Backend,
    CallKind::BlocksInout,
    CallKind::BlockInout,
    CallKind::BackendInplace,
    CallKind::BlocksInoutInplace,
    CallKind::Backend,
    CallKind::BackendInplace,
];

/// Byte length classes for messages: 0, < one block, = one block, k blocks, k blocks +- 1, any.
pub fn gen_msg_len(t: &mut Tape<'_>, bs: usize, max_blocks: usize) -> usize {
    let class = t.byte();
    let k = 1 + t.idx(max_blocks.max(1));
    let any = t.idx(bs.max(1));
    let max = max_blocks * bs;
    if class >= 253 && max_blocks >= 6 && bs <= 64 {
        // rare: byte lengths around 256 blocks
        return [255 * bs + any, 256 * bs, 256 * bs + 1][class as usize - 253];
    }
    if (247..253).contains(&class) && max_blocks >= 6 && bs <= 64 {
        // uncommon: 17..=32 blocks (beyond the bulk-path thresholds of buffered and parallel code), +0, +1, +any
        let nb = 17 + (k * 5 + any) % 16;
        return nb * bs + [0, 1, any][class as usize % 3];
    }
    let v = match class {
        0..=9 => 0,
        10..=29 => any,             // < one block (possibly 0)
        30..=49 => bs,
        50..=89 => k * bs,
        90..=119 => k * bs + 1,
        120..=149 => (k * bs).saturating_sub(1),
        _ => (k - 1) * bs + any,
    };
    v.min(max)
}

/// A composition of `len` bytes into at most `max_pieces` pieces (zeros allowed), biased
/// towards cuts at k*bs-1, k*bs, k*bs+1. Fixed-size records of 2 bytes.
pub fn gen_cuts(t: &mut Tape<'_>, len: usize, bs: usize, max_pieces: usize) -> Vec<usize> {
    let m = 1 + t.idx(max_pieces);
    let mut left = len;
    let mut pos = 0usize;
    let mut v = Vec::new();
    for i in 0..m {
        let class = t.byte();
        let amt = t.byte() as usize;
        let piece = if i + 1 == m {
            left
        } else {
            let to_boundary = (bs - pos % bs) % bs; // bytes up to the next block boundary (0 if on it)
            match class {
                0 => left,
                1..=25 => 0,
                26..=60 => 1,
                61..=100 => to_boundary,                       // end exactly on a boundary
                101..=125 => to_boundary + 1,                   // one past
                126..=150 => (to_boundary + bs).saturating_sub(1), // one short of the next one
                151..=175 => to_boundary + bs * (1 + amt % 3),  // whole blocks, ending on a boundary
                176..=200 => (amt * bs) / 256,                  // shorter than a block
                246..=255 => bs * (1 + amt % 20),               // whole blocks from wherever we are (possibly mid-block)
                _ => (amt * (left + 1)) / 256,
            }
        }
        .min(left);
        left -= piece;
        pos += piece;
        v.push(piece);
    }
    v
}

pub fn describe_cuts(c: &[usize]) -> String {
    c.iter().map(|x| x.to_string()).collect::<Vec<_>>().join("+")
}

/// Apply-kind per piece (1 byte each, fixed count).
pub fn gen_apply_kinds(t: &mut Tape<'_>, n: usize) -> Vec<ApplyKind> {
    (0..n).map(|_| ApplyKind::ALL[t.idx(3)]).collect()
}

/// Feed `data` through a stream cipher object in pieces. All calls must succeed.
pub fn run_stream(
    obj: &mut dyn StreamObj,
    data: &[u8],
    cuts: &[usize],
    kinds: &[ApplyKind],
    pre: (u8, u32),
) -> Result<Vec<u8>, Violation> {
    let mut out = Vec::with_capacity(data.len());
    let mut off = 0;
    for (i, c) in cuts.iter().enumerate() {
        let inp = &data[off..off + c];
        let mut o = prefill(pre.0, pre.1.wrapping_add(off as u32), inp);
        let k = kinds.get(i).copied().unwrap_or(ApplyKind::InPlace);
        let r = obj.try_apply(k, inp, &mut o);
        ensure!(r.is_ok(), "apply-rejected", "{:?} of {} bytes at offset {} failed", k, c, off);
        out.extend_from_slice(&o);
        off += c;
    }
    assert_eq!(off, data.len(), "harness: cuts do not cover the data");
    Ok(out)
}

/// Like [`run_stream`], but a refused call is reported as `Ok(None)` instead of a violation
/// (for metamorphic checks that only compare two ways of doing the same thing: whether an
/// in-range request may be refused at all is C11's business).
pub fn run_stream_opt(
    obj: &mut dyn StreamObj,
    data: &[u8],
    cuts: &[usize],
    kinds: &[ApplyKind],
    pre: (u8, u32),
) -> Option<Vec<u8>> {
    let mut out = Vec::with_capacity(data.len());
    let mut off = 0;
    for (i, c) in cuts.iter().enumerate() {
        let inp = &data[off..off + c];
        let mut o = prefill(pre.0, pre.1.wrapping_add(off as u32), inp);
        let k = kinds.get(i).copied().unwrap_or(ApplyKind::InPlace);
        obj.try_apply(k, inp, &mut o).ok()?;
        out.extend_from_slice(&o);
        off += c;
    }
    assert_eq!(off, data.len(), "harness: cuts do not cover the data");
    Some(out)
}

pub fn run_buf(obj: &mut dyn BufCfbObj, data: &[u8], cuts: &[usize]) -> Vec<u8> {
    let mut out = data.to_vec();
    let mut off = 0;
    for c in cuts {
        obj.process(&mut out[off..off + c]);
        off += c;
    }
    assert_eq!(off, data.len(), "harness: cuts do not cover the data");
    out
}

pub fn with_sig(prefix: &str, ty: &str, v: Violation) -> Violation {
    Violation {
        sig: format!("{prefix}/{}/{ty}", v.sig),
        msg: v.msg,
    }
}

/// Run the whole message through a block mode in one `Blocks` call.
pub fn run_simple(obj: &mut dyn BlockModeObj, data: &[u8]) -> Vec<u8> {
    let mut out = vec![0u8; data.len()];
    let mut s = Sched::new([0; 6]);
    let _ = obj.process(CallKind::Blocks, data, &mut out, &mut s);
    out
}

pub const STREAM_KINDS_ALL: [StreamKind; 8] = [
    StreamKind::Ctr(32, true),
    StreamKind::Ctr(32, false),
    StreamKind::Ctr(64, true),
    StreamKind::Ctr(64, false),
    StreamKind::Ctr(128, true),
    StreamKind::Ctr(128, false),
    StreamKind::Belt,
    StreamKind::Ofb,
];

// ---------------------------------------------------------------------------------------
// positions in a keystream: (block index, byte offset inside the block)

#[derive(Clone, Copy, Debug, PartialEq, Eq)]
pub struct Pos {
    pub blk: u128,
    pub off: usize,
}

impl Pos {
    pub fn zero() -> Self {
        Pos { blk: 0, off: 0 }
    }
    /// byte position if it fits u128
    pub fn bytes(self, bs: usize) -> Option<u128> {
        self.blk.checked_mul(bs as u128)?.checked_add(self.off as u128)
    }
    pub fn from_bytes(p: u128, bs: usize) -> Self {
        Pos {
            blk: p / bs as u128,
            off: (p % bs as u128) as usize,
        }
    }
    /// position after `n` more bytes; `None` on u128 block-index overflow
    pub fn advance(self, n: usize, bs: usize) -> Option<Pos> {
        let t = self.off + n;
        Some(Pos {
            blk: self.blk.checked_add((t / bs) as u128)?,
            off: t % bs,
        })
    }
    /// number of keystream blocks the core has generated when the byte position is `self`
    pub fn blocks_generated(self) -> u128 {
        self.blk + (self.off != 0) as u128
    }
}

/// Does a request of `n` bytes starting at `p` stay within `limit` keystream blocks?
pub fn fits(p: Pos, n: usize, bs: usize, limit: u128) -> bool {
    match p.advance(n, bs) {
        None => false,
        Some(e) => e.blk < limit || (e.blk == limit && e.off == 0),
    }
}

/// The smallest seek integer type that can hold `p`, chosen among the generated candidates.
pub fn seek_types_for(p: u128) -> Vec<NumTy> {
    NumTy::ALL.iter().copied().filter(|t| p <= t.max()).collect()
}

/// Block-index classes for a `w`-bit counter: 0, small, around 2^8k, random, near the end.
/// Returns an index in `[0, 2^w - 1 - reserve]`.
pub fn gen_block_index(t: &mut Tape<'_>, w: u32, reserve: u128) -> u128 {
    let maxidx: u128 = if w == 128 { u128::MAX } else { (1u128 << w) - 1 };
    let hi = maxidx - reserve.min(maxidx);
    let class = t.byte();
    let a = t.u32() as u128;
    let j = t.idx(5) as u128;
    let v = match class {
        0..=39 => 0,
        40..=89 => a % 300,
        90..=119 => {
            // around a byte-carry boundary of the counter: 2^(8k) - 2 .. 2^(8k) + 2
            let k = 1 + (a % ((w / 8) as u128 - 0)).min((w / 8) as u128 - 1);
            let base = if 8 * k >= 128 { u128::MAX } else { 1u128 << (8 * k) };
            base.wrapping_sub(2).wrapping_add(j)
        }
        120..=139 => {
            // around any power of two (signed/unsigned and narrower-integer boundaries: 2^15, 2^31, 2^63, ...)
            let k = 1 + (a % (w as u128 - 1));
            (1u128 << k).wrapping_sub(2).wrapping_add(j)
        }
        140..=189 => {
            // pseudo-random over the whole range
            let mut st = (a as u64) << 8 | class as u64;
            let x = ((vp_base::tape::splitmix(&mut st) as u128) << 64) | vp_base::tape::splitmix(&mut st) as u128;
            if w == 128 { x } else { x & maxidx }
        }
        _ => hi - j.min(hi),
    };
    v.min(hi)
}

/// An IV for a CTR flavour with the counter field drawn from boundary classes.
pub fn gen_ctr_iv(t: &mut Tape<'_>, bs: usize, w: u32, be: bool) -> Vec<u8> {
    let mut iv = vp_base::tape::gen_bytes(t, bs);
    let class = t.byte();
    let a = t.u32() as u128;
    let j = t.idx(4) as u128;
    let wb = (w / 8) as usize;
    let mask: u128 = if w == 128 { u128::MAX } else { (1u128 << w) - 1 };
    let field: Option<u128> = match class {
        0..=63 => None, // whatever the pattern gave
        64..=95 => Some(0),
        96..=159 => Some(mask - j),                       // wraps within a few blocks
        160..=207 => {
            let k = 1 + (a % (w as u128 / 8));
            let base = if 8 * k >= 128 { 0u128 } else { 1u128 << (8 * k) };
            Some(base.wrapping_sub(1).wrapping_sub(j) & mask) // just below a byte carry
        }
        _ => {
            let mut st = (a as u64) << 8 | class as u64;
            let x = ((vp_base::tape::splitmix(&mut st) as u128) << 64) | vp_base::tape::splitmix(&mut st) as u128;
            Some(x & mask)
        }
    };
    if let Some(v) = field {
        for k in 0..wb {
            let byte = (v >> (8 * k)) as u8;
            if be {
                iv[bs - 1 - k] = byte;
            } else {
                iv[k] = byte;
            }
        }
    }
    iv
}

#[derive(Clone, Copy, Debug, PartialEq, Eq)]
pub enum Reach {
    Seek(NumTy),
    /// `core.set_block_pos(blk)`, `from_core`, then consume `off` bytes
    SetBlockPos,
}

/// Build a byte-level stream cipher positioned at `p`.  Returns `None` when the chosen way
/// of getting there is refused by the API (never the case for in-range positions; the
/// caller decides what that means).
pub fn position_stream(
    f: &dyn StreamFactory,
    model: &crate::model::KsModel<'_>,
    key: &[u8],
    iv: &[u8],
    p: Pos,
    bs: usize,
    reach: Reach,
    how: Ctor,
    sigp: &str,
) -> Result<Box<dyn StreamObj>, Violation> {
    let ty = f.type_name();
    match reach {
        Reach::Seek(nt) => {
            let mut s = f.make(how, key, iv).expect("harness: ctor");
            let bytes = p.bytes(bs).expect("harness: seek position fits u128");
            let res = s.try_seek(nt, bytes).ok_or_else(|| Violation { sig: format!("{sigp}/not-seekable/{ty}"), msg: "type no longer implements StreamCipherSeek".into() })?;
            ensure!(res.is_ok(), format!("{sigp}/seek-rejected/{ty}"), "try_seek::<{nt:?}>({bytes}) (block {}, offset {}) failed although the position is inside the keystream", p.blk, p.off);
            Ok(s)
        }
        Reach::SetBlockPos => {
            let mut c = f.make_core(how, key, iv).expect("harness: ctor");
            c.set_block_pos(p.blk).ok_or_else(|| Violation { sig: format!("{sigp}/not-seekable/{ty}"), msg: "core no longer implements StreamCipherSeekCore".into() })?;
            let mut s = c.into_wrapper();
            if p.off > 0 {
                let dummy = vec![0x5Au8; p.off];
                let mut o = vec![0u8; p.off];
                let res = s.try_apply(ApplyKind::Inout, &dummy, &mut o);
                ensure!(res.is_ok(), format!("{sigp}/apply-rejected/{ty}"), "applying {} bytes at block {} failed", p.off, p.blk);
                let want = model.apply_at(p.blk, 0, &dummy);
                ensure_eq_bytes!(o, want, format!("{sigp}/output/{ty}"), "first {} bytes of block {}", p.off, p.blk);
            }
            Ok(s)
        }
    }
}

pub fn gen_reach(t: &mut Tape<'_>, p: Pos, bs: usize) -> Reach {
    let b = t.byte();
    match p.bytes(bs) {
        Some(bytes) if b < 176 => {
            let tys = seek_types_for(bytes);
            Reach::Seek(tys[(b as usize * tys.len()) / 176])
        }
        _ => Reach::SetBlockPos,
    }
}

// ---------------------------------------------------------------------------------------
// operation histories on byte-level stream ciphers

#[derive(Clone, Debug)]
pub enum SOp {
    Seek(NumTy, u128),
    Apply(ApplyKind, Vec<u8>, (u8, u32)),
    Pos(NumTy),
    Remaining,
    BlockPos,
}

#[derive(Clone, Debug, PartialEq, Eq)]
pub enum SRes {
    Seek(Option<Result<(), ApiErr>>),
    Apply(Result<(), ApiErr>, Vec<u8>),
    Pos(Option<Result<u128, ApiErr>>),
    Remaining(Option<usize>),
    BlockPos(Option<u128>),
}

pub fn exec_sop(obj: &mut dyn StreamObj, op: &SOp) -> SRes {
    match op {
        SOp::Seek(ty, p) => SRes::Seek(obj.try_seek(*ty, *p)),
        SOp::Apply(k, data, pre) => {
            let mut o = prefill(pre.0, pre.1, data);
            let r = obj.try_apply(*k, data, &mut o);
            SRes::Apply(r, o)
        }
        SOp::Pos(ty) => SRes::Pos(obj.try_current_pos(*ty)),
        SOp::Remaining => SRes::Remaining(obj.core_remaining()),
        SOp::BlockPos => SRes::BlockPos(obj.core_block_pos()),
    }
}

pub fn describe_sop(op: &SOp) -> String {
    match op {
        SOp::Seek(ty, p) => format!("seek<{ty:?}>({p})"),
        SOp::Apply(k, d, pre) => format!("apply<{k:?}>({}B,prefill{})", d.len(), pre.0),
        SOp::Pos(ty) => format!("pos<{ty:?}>"),
        SOp::Remaining => "remaining".into(),
        SOp::BlockPos => "block_pos".into(),
    }
}

/// Check a reported position against the model (soundness rule 4 of DESIGN.md).
pub fn check_reported_pos(res: Option<Result<u128, ApiErr>>, ty: NumTy, q: Pos, bs: usize, sigp: &str, tyname: &str) -> CheckResult {
    let res = res.ok_or_else(|| Violation { sig: format!("{sigp}/not-seekable/{tyname}"), msg: "type no longer implements StreamCipherSeek".into() })?;
    let qb = q.bytes(bs);
    match res {
        Ok(v) => {
            ensure!(Some(v) == qb, format!("{sigp}/position-value/{tyname}"), "try_current_pos::<{ty:?}>() = {v}, but {} keystream bytes precede the next byte (block {}, offset {})", qb.map(|x| x.to_string()).unwrap_or_else(|| ">2^128".into()), q.blk, q.off);
            ensure!(v <= ty.max(), format!("{sigp}/position-value/{tyname}"), "reported position does not fit the type");
        }
        Err(_) => {
            // an error is mandatory when the position does not fit; it is tolerated when the
            // end of the current keystream block does not fit (cipher's SeekNum multiplies first)
            let gen_bytes = q.blocks_generated().checked_mul(bs as u128);
            let tolerated = match gen_bytes {
                None => true,
                Some(g) => g > ty.max(),
            };
            ensure!(tolerated, format!("{sigp}/position-error/{tyname}"), "try_current_pos::<{ty:?}>() failed although the position (block {}, offset {}) fits comfortably", q.blk, q.off);
        }
    }
    Ok(())
}

/// IV for any stream kind with the classes that matter for it: CTR counter fields at boundaries,
/// BelT IVs whose `E(IV)` is just below 2^128 or has its low 64-bit word just below 2^64
/// (needs `D`, i.e. a cipher with both directions), plain pattern/random bytes otherwise.
/// Fixed tape footprint: 5 + 1 + 4 + 1 bytes.
pub fn gen_stream_iv(t: &mut Tape<'_>, kind: StreamKind, bs: usize, c: &dyn CipherObj, has_dec: bool) -> Vec<u8> {
    match kind {
        StreamKind::Ctr(w, be) => gen_ctr_iv(t, bs, w, be),
        StreamKind::Belt => {
            let mut iv = vp_base::tape::gen_bytes(t, bs);
            let class = t.byte();
            let a = t.u32() as u128;
            let j = t.idx(4) as u128;
            if has_dec && class >= 128 {
                // s_0 just below 2^128; low 64-bit word just below 2^64 (the sum carries between the words
                // early in the stream); low word just above 0 (it does so just before the end of the keystream)
                let s0 = if class >= 192 {
                    u128::MAX - j
                } else if class >= 150 {
                    ((a | 1) << 64) | (u64::MAX as u128 - j)
                } else {
                    ((a | 1) << 64) | j
                };
                let mut b = s0.to_le_bytes().to_vec();
                c.dec(&mut b);
                iv = b;
            }
            iv
        }
        StreamKind::Ofb => {
            let iv = vp_base::tape::gen_bytes(t, bs);
            let _ = (t.byte(), t.u32(), t.idx(4));
            iv
        }
    }
}
