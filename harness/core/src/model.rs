//! Independent reference implementations of every mode, written from the property
//! statements over plain byte slices and a single-block cipher interface.

use vp_base::obj::{CipherObj, CtsVariant, StreamKind};

pub fn xor_into(a: &mut [u8], b: &[u8]) {
    debug_assert!(b.len() >= a.len());
    for (x, y) in a.iter_mut().zip(b.iter()) {
        *x ^= *y;
    }
}

fn e(c: &dyn CipherObj, b: &[u8]) -> Vec<u8> {
    let mut v = b.to_vec();
    c.enc(&mut v);
    v
}
fn d(c: &dyn CipherObj, b: &[u8]) -> Vec<u8> {
    let mut v = b.to_vec();
    c.dec(&mut v);
    v
}
fn x(a: &[u8], b: &[u8]) -> Vec<u8> {
    assert_eq!(a.len(), b.len(), "harness: model xor lengths");
    a.iter().zip(b.iter()).map(|(p, q)| p ^ q).collect()
}

/// (output, chaining value afterwards)
pub type Out = (Vec<u8>, Vec<u8>);

// --- CBC: C_i = E(P_i ^ C_{i-1}), C_0 = IV -------------------------------------------------
pub fn cbc_enc(c: &dyn CipherObj, iv: &[u8], pt: &[u8]) -> Out {
    let bs = c.bs();
    let mut prev = iv.to_vec();
    let mut out = Vec::with_capacity(pt.len());
    for p in pt.chunks(bs) {
        let ci = e(c, &x(p, &prev));
        out.extend_from_slice(&ci);
        prev = ci;
    }
    (out, prev)
}
pub fn cbc_dec(c: &dyn CipherObj, iv: &[u8], ct: &[u8]) -> Out {
    let bs = c.bs();
    let mut prev = iv.to_vec();
    let mut out = Vec::with_capacity(ct.len());
    for ci in ct.chunks(bs) {
        out.extend_from_slice(&x(&d(c, ci), &prev));
        prev = ci.to_vec();
    }
    (out, prev)
}

// --- PCBC: C_i = E(P_i ^ S_{i-1}), S_0 = IV, S_i = P_i ^ C_i -------------------------------
pub fn pcbc_enc(c: &dyn CipherObj, iv: &[u8], pt: &[u8]) -> Out {
    let bs = c.bs();
    let mut s = iv.to_vec();
    let mut out = Vec::with_capacity(pt.len());
    for p in pt.chunks(bs) {
        let ci = e(c, &x(p, &s));
        s = x(p, &ci);
        out.extend_from_slice(&ci);
    }
    (out, s)
}
pub fn pcbc_dec(c: &dyn CipherObj, iv: &[u8], ct: &[u8]) -> Out {
    let bs = c.bs();
    let mut s = iv.to_vec();
    let mut out = Vec::with_capacity(ct.len());
    for ci in ct.chunks(bs) {
        let p = x(&d(c, ci), &s);
        s = x(&p, ci);
        out.extend_from_slice(&p);
    }
    (out, s)
}

// --- IGE: C_i = E(P_i ^ C_{i-1}) ^ P_{i-1}; IV = C_0 || P_0; state = C_n || P_n ------------
pub fn ige_enc(c: &dyn CipherObj, iv: &[u8], pt: &[u8]) -> Out {
    let bs = c.bs();
    assert_eq!(iv.len(), 2 * bs, "harness: IGE IV is two blocks");
    let mut c_prev = iv[..bs].to_vec();
    let mut p_prev = iv[bs..].to_vec();
    let mut out = Vec::with_capacity(pt.len());
    for p in pt.chunks(bs) {
        let ci = x(&e(c, &x(p, &c_prev)), &p_prev);
        out.extend_from_slice(&ci);
        c_prev = ci;
        p_prev = p.to_vec();
    }
    let mut st = c_prev;
    st.extend_from_slice(&p_prev);
    (out, st)
}
pub fn ige_dec(c: &dyn CipherObj, iv: &[u8], ct: &[u8]) -> Out {
    let bs = c.bs();
    assert_eq!(iv.len(), 2 * bs, "harness: IGE IV is two blocks");
    let mut c_prev = iv[..bs].to_vec();
    let mut p_prev = iv[bs..].to_vec();
    let mut out = Vec::with_capacity(ct.len());
    for ci in ct.chunks(bs) {
        // C_i ^ P_{i-1} = E(P_i ^ C_{i-1})
        let p = x(&d(c, &x(ci, &p_prev)), &c_prev);
        out.extend_from_slice(&p);
        c_prev = ci.to_vec();
        p_prev = p;
    }
    let mut st = c_prev;
    st.extend_from_slice(&p_prev);
    (out, st)
}

// --- CFB: C_i = P_i ^ E(C_{i-1}); partial tail uses leading keystream bytes ------------------
/// state = last `bs` bytes of IV || ciphertext restricted to whole blocks (the chaining value
/// at the last block boundary)
pub fn cfb_enc(c: &dyn CipherObj, iv: &[u8], pt: &[u8]) -> Out {
    let bs = c.bs();
    let mut prev = iv.to_vec();
    let mut out = Vec::with_capacity(pt.len());
    for p in pt.chunks(bs) {
        let ks = e(c, &prev);
        let ci: Vec<u8> = p.iter().zip(ks.iter()).map(|(a, b)| a ^ b).collect();
        out.extend_from_slice(&ci);
        if ci.len() == bs {
            prev = ci;
        }
    }
    (out, prev)
}
pub fn cfb_dec(c: &dyn CipherObj, iv: &[u8], ct: &[u8]) -> Out {
    let bs = c.bs();
    let mut prev = iv.to_vec();
    let mut out = Vec::with_capacity(ct.len());
    for ci in ct.chunks(bs) {
        let ks = e(c, &prev);
        out.extend(ci.iter().zip(ks.iter()).map(|(a, b)| a ^ b));
        if ci.len() == bs {
            prev = ci.to_vec();
        }
    }
    (out, prev)
}

// --- CFB-8 ------------------------------------------------------------------------------------
pub fn cfb8_enc(c: &dyn CipherObj, iv: &[u8], pt: &[u8]) -> Out {
    let mut s = iv.to_vec();
    let mut out = Vec::with_capacity(pt.len());
    for p in pt {
        let k = e(c, &s)[0];
        let ci = p ^ k;
        out.push(ci);
        s.remove(0);
        s.push(ci);
    }
    (out, s)
}
pub fn cfb8_dec(c: &dyn CipherObj, iv: &[u8], ct: &[u8]) -> Out {
    let mut s = iv.to_vec();
    let mut out = Vec::with_capacity(ct.len());
    for ci in ct {
        let k = e(c, &s)[0];
        out.push(ci ^ k);
        s.remove(0);
        s.push(*ci);
    }
    (out, s)
}

// --- OFB: O_i = E(O_{i-1}), O_0 = IV -----------------------------------------------------------
/// state = O_n where n = number of *whole or partial* keystream blocks generated
pub fn ofb(c: &dyn CipherObj, iv: &[u8], data: &[u8]) -> Out {
    let bs = c.bs();
    let mut o = iv.to_vec();
    let mut out = Vec::with_capacity(data.len());
    for p in data.chunks(bs) {
        o = e(c, &o);
        out.extend(p.iter().zip(o.iter()).map(|(a, b)| a ^ b));
    }
    (out, o)
}

// --- CTR ---------------------------------------------------------------------------------------
/// Counter block for block index `i` (mod 2^w arithmetic on the counter field only).
pub fn ctr_block(iv: &[u8], width_bits: u32, big_endian: bool, i: u128) -> Vec<u8> {
    let wb = (width_bits / 8) as usize;
    let n = iv.len();
    assert!(n % wb == 0 && n >= wb, "harness: CTR block size");
    let mut blk = iv.to_vec();
    let mask: u128 = if width_bits == 128 { u128::MAX } else { (1u128 << width_bits) - 1 };
    if big_endian {
        let f = &iv[n - wb..];
        let mut v: u128 = 0;
        for b in f {
            v = (v << 8) | *b as u128;
        }
        let v = v.wrapping_add(i) & mask;
        for k in 0..wb {
            blk[n - 1 - k] = (v >> (8 * k)) as u8;
        }
    } else {
        let f = &iv[..wb];
        let mut v: u128 = 0;
        for (k, b) in f.iter().enumerate() {
            v |= (*b as u128) << (8 * k);
        }
        let v = v.wrapping_add(i) & mask;
        for k in 0..wb {
            blk[k] = (v >> (8 * k)) as u8;
        }
    }
    blk
}

/// The input block of `E` for keystream block `i` (0-based) of the given stream kind.
/// For BelT `s0` must be supplied (`LE128(E(IV))`).
pub struct KsModel<'a> {
    pub c: &'a dyn CipherObj,
    pub kind: StreamKind,
    pub iv: Vec<u8>,
    /// BelT: s_0; unused otherwise
    pub s0: u128,
    /// OFB: cached chain O_1.. (computed lazily)
    ofb_chain: std::cell::RefCell<Vec<Vec<u8>>>,
}

impl<'a> KsModel<'a> {
    pub fn new(c: &'a dyn CipherObj, kind: StreamKind, iv: &[u8]) -> Self {
        let s0 = if kind == StreamKind::Belt {
            let t = e(c, iv);
            u128::from_le_bytes(t.as_slice().try_into().expect("harness: BelT block is 16 bytes"))
        } else {
            0
        };
        KsModel {
            c,
            kind,
            iv: iv.to_vec(),
            s0,
            ofb_chain: Default::default(),
        }
    }
    /// number of keystream blocks available under one IV (None = unbounded / not applicable)
    pub fn limit_blocks(&self) -> Option<u128> {
        match self.kind {
            StreamKind::Ofb => None,
            StreamKind::Ctr(128, _) | StreamKind::Belt => Some(u128::MAX),
            StreamKind::Ctr(w, _) => Some((1u128 << w) - 1),
        }
    }
    /// input of E for block `i`; `None` for OFB (no closed form)
    pub fn e_input(&self, i: u128) -> Option<Vec<u8>> {
        match self.kind {
            StreamKind::Ofb => None,
            StreamKind::Ctr(w, be) => Some(ctr_block(&self.iv, w, be, i)),
            StreamKind::Belt => Some(self.s0.wrapping_add(i).wrapping_add(1).to_le_bytes().to_vec()),
        }
    }
    pub fn ks_block(&self, i: u128) -> Vec<u8> {
        match self.kind {
            StreamKind::Ofb => {
                let mut ch = self.ofb_chain.borrow_mut();
                let i = usize::try_from(i).expect("harness: OFB block index small");
                while ch.len() <= i {
                    let prev = ch.last().cloned().unwrap_or_else(|| self.iv.clone());
                    ch.push(e(self.c, &prev));
                }
                ch[i].clone()
            }
            _ => e(self.c, &self.e_input(i).unwrap()),
        }
    }
    /// keystream bytes at byte positions `pos .. pos+len` (positions are exact integers)
    pub fn ks_bytes(&self, pos: u128, len: usize) -> Vec<u8> {
        let bs = self.c.bs() as u128;
        let mut out = Vec::with_capacity(len);
        let mut p = pos;
        let end = pos + len as u128;
        while p < end {
            let bi = p / bs;
            let off = (p % bs) as usize;
            let blk = self.ks_block(bi);
            let take = ((bs as usize) - off).min((end - p) as usize);
            out.extend_from_slice(&blk[off..off + take]);
            p += take as u128;
        }
        out
    }
    /// keystream bytes starting at byte `off` of block `blk` (for positions beyond 2^128 bytes)
    pub fn ks_at(&self, blk: u128, off: usize, len: usize) -> Vec<u8> {
        let bs = self.c.bs();
        assert!(off < bs, "harness: offset inside a block");
        let mut out = Vec::with_capacity(len);
        let mut b = blk;
        let mut o = off;
        while out.len() < len {
            let blkbytes = self.ks_block(b);
            let take = (bs - o).min(len - out.len());
            out.extend_from_slice(&blkbytes[o..o + take]);
            o = 0;
            if out.len() < len {
                b = b.checked_add(1).expect("harness: block index overflow in the model");
            }
        }
        out
    }
    pub fn apply_at(&self, blk: u128, off: usize, data: &[u8]) -> Vec<u8> {
        let ks = self.ks_at(blk, off, data.len());
        data.iter().zip(ks.iter()).map(|(a, b)| a ^ b).collect()
    }
    pub fn apply(&self, pos: u128, data: &[u8]) -> Vec<u8> {
        let ks = self.ks_bytes(pos, data.len());
        data.iter().zip(ks.iter()).map(|(a, b)| a ^ b).collect()
    }
    /// IV state after `k` blocks: next counter block (CTR), O_k (OFB), D(s_0 + k) (BelT)
    pub fn iv_state_after(&self, k: u128) -> Vec<u8> {
        match self.kind {
            StreamKind::Ofb => {
                if k == 0 {
                    self.iv.clone()
                } else {
                    self.ks_block(k - 1)
                }
            }
            StreamKind::Ctr(w, be) => ctr_block(&self.iv, w, be, k),
            StreamKind::Belt => d(self.c, &self.s0.wrapping_add(k).to_le_bytes()),
        }
    }
}

// --- ciphertext stealing --------------------------------------------------------------------

fn cts_order_out(v: CtsVariant, head: &[u8], c_pen_trunc: &[u8], c_last: &[u8], d_len: usize, bs: usize) -> Vec<u8> {
    let mut out = head.to_vec();
    let swap = match v.cs() {
        1 => false,
        2 => d_len != bs,
        _ => true,
    };
    if swap {
        out.extend_from_slice(c_last);
        out.extend_from_slice(c_pen_trunc);
    } else {
        out.extend_from_slice(c_pen_trunc);
        out.extend_from_slice(c_last);
    }
    out
}

/// Encryption per SP 800-38A-add (CBC) and the analogous ECB construction.
pub fn cts_enc(c: &dyn CipherObj, v: CtsVariant, iv: &[u8], msg: &[u8]) -> Vec<u8> {
    let bs = c.bs();
    let l = msg.len();
    assert!(l >= bs, "harness: CTS model needs at least one block");
    let n = l.div_ceil(bs);
    let dl = l - (n - 1) * bs; // 1..=bs
    if v.is_cbc() {
        let mut padded = msg.to_vec();
        padded.resize(n * bs, 0);
        let (cbc, _) = cbc_enc(c, iv, &padded);
        if n == 1 {
            return cbc;
        }
        let head = &cbc[..(n - 2) * bs];
        let pen = &cbc[(n - 2) * bs..(n - 1) * bs];
        let last = &cbc[(n - 1) * bs..];
        cts_order_out(v, head, &pen[..dl], last, dl, bs)
    } else {
        if n == 1 {
            return e(c, msg);
        }
        let mut head = Vec::new();
        for p in msg[..(n - 2) * bs].chunks(bs) {
            head.extend_from_slice(&e(c, p));
        }
        let pen = e(c, &msg[(n - 2) * bs..(n - 1) * bs]);
        let mut lastp = msg[(n - 1) * bs..].to_vec();
        lastp.extend_from_slice(&pen[dl..]);
        let last = e(c, &lastp);
        cts_order_out(v, &head, &pen[..dl], &last, dl, bs)
    }
}

/// Decryption written from the NIST decryption steps: works on arbitrary strings.
pub fn cts_dec(c: &dyn CipherObj, v: CtsVariant, iv: &[u8], ct: &[u8]) -> Vec<u8> {
    let bs = c.bs();
    let l = ct.len();
    assert!(l >= bs, "harness: CTS model needs at least one block");
    let n = l.div_ceil(bs);
    let dl = l - (n - 1) * bs;
    if n == 1 {
        return if v.is_cbc() { cbc_dec(c, iv, ct).0 } else { d(c, ct) };
    }
    let head = &ct[..(n - 2) * bs];
    let rest = &ct[(n - 2) * bs..];
    let swapped = match v.cs() {
        1 => false,
        2 => dl != bs,
        _ => true,
    };
    let (c_star, c_last): (&[u8], &[u8]) = if swapped {
        (&rest[bs..], &rest[..bs])
    } else {
        (&rest[..dl], &rest[dl..])
    };
    let z = d(c, c_last);
    let mut c_pen = c_star.to_vec();
    c_pen.extend_from_slice(&z[dl..]);
    if v.is_cbc() {
        let (mut out, chain) = cbc_dec(c, iv, head);
        let p_pen = x(&d(c, &c_pen), &chain);
        let p_last: Vec<u8> = z[..dl].iter().zip(c_star.iter()).map(|(a, b)| a ^ b).collect();
        out.extend_from_slice(&p_pen);
        out.extend_from_slice(&p_last);
        out
    } else {
        let mut out = Vec::new();
        for b in head.chunks(bs) {
            out.extend_from_slice(&d(c, b));
        }
        out.extend_from_slice(&d(c, &c_pen));
        out.extend_from_slice(&z[..dl]);
        out
    }
}

/// Raw ECB (used by C14)
pub fn ecb_enc(c: &dyn CipherObj, pt: &[u8]) -> Vec<u8> {
    let mut out = Vec::new();
    for p in pt.chunks(c.bs()) {
        out.extend_from_slice(&e(c, p));
    }
    out
}
pub fn ecb_dec(c: &dyn CipherObj, ct: &[u8]) -> Vec<u8> {
    let mut out = Vec::new();
    for p in ct.chunks(c.bs()) {
        out.extend_from_slice(&d(c, p));
    }
    out
}

// --- dispatch by mode ---------------------------------------------------------------------------
use vp_base::obj::{Direction, Mode};

/// Model of a block-level mode on whole mode blocks (or, for CFB, any byte length).
pub fn block_mode(c: &dyn CipherObj, mode: Mode, dir: Direction, iv: &[u8], data: &[u8]) -> Out {
    match (mode, dir) {
        (Mode::Cbc, Direction::Enc) => cbc_enc(c, iv, data),
        (Mode::Cbc, Direction::Dec) => cbc_dec(c, iv, data),
        (Mode::Pcbc, Direction::Enc) => pcbc_enc(c, iv, data),
        (Mode::Pcbc, Direction::Dec) => pcbc_dec(c, iv, data),
        (Mode::Ige, Direction::Enc) => ige_enc(c, iv, data),
        (Mode::Ige, Direction::Dec) => ige_dec(c, iv, data),
        (Mode::Cfb, Direction::Enc) => cfb_enc(c, iv, data),
        (Mode::Cfb, Direction::Dec) => cfb_dec(c, iv, data),
        (Mode::Cfb8, Direction::Enc) => cfb8_enc(c, iv, data),
        (Mode::Cfb8, Direction::Dec) => cfb8_dec(c, iv, data),
        (Mode::Ofb, _) => ofb(c, iv, data),
    }
}
