//! vp-core: reference models and one check per property (C01..C17).
pub use vp_base::{adapt, obj, tape, toy};
pub mod registry;
