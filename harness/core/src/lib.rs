//! vp-core: reference models and one check per property (C01..C17).
pub use vp_base::{adapt, obj, tape, toy};
pub mod checks;
pub mod common;
pub mod engine;
pub mod known;
pub mod longcall;
pub mod model;
pub mod registry;
pub mod selfcheck;
pub use vp_base::ZEROIZE;
