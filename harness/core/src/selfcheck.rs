//! Harness self-checks: the reference models are cross-checked against published vectors
//! with the real ciphers before any verdict is given. A failure here is exit 2 (the harness
//! is wrong), never a violation.

use crate::common::Ctx;
use crate::model;
use vp_base::obj::*;
use vp_base::tape::{hex, unhex};

fn h(s: &str) -> Vec<u8> {
    unhex(&s.replace(' ', "")).expect("harness: bad hex literal")
}

pub fn run(ctx: &Ctx, _id: &str) -> Result<(), String> {
    let aes = ctx.suite_named("Aes128").ok_or("no Aes128 suite")?;
    // NIST SP 800-38A, AES-128 (F.2.1, F.3.13, F.3.7, F.4.1, F.5.1)
    let key = h("2b7e151628aed2a6abf7158809cf4f3c");
    let iv = h("000102030405060708090a0b0c0d0e0f");
    let pt = h("6bc1bee22e409f96e93d7e117393172a ae2d8a571e03ac9c9eb76fac45af8e51");
    let c = (aes.keyed)(&key);
    let chk = |name: &str, got: &[u8], want: &str| -> Result<(), String> {
        let w = h(want);
        if got != &w[..] {
            return Err(format!("model {name}: got {} want {}", hex(got), hex(&w)));
        }
        Ok(())
    };
    chk("CBC", &model::cbc_enc(c.as_ref(), &iv, &pt).0, "7649abac8119b246cee98e9b12e9197d 5086cb9b507219ee95db113a917678b2")?;
    chk("CBC-dec", &model::cbc_dec(c.as_ref(), &iv, &h("7649abac8119b246cee98e9b12e9197d 5086cb9b507219ee95db113a917678b2")).0, &hex(&pt))?;
    chk("CFB", &model::cfb_enc(c.as_ref(), &iv, &pt).0, "3b3fd92eb72dad20333449f8e83cfb4a c8a64537a0b3a93fcde3cdad9f1ce58b")?;
    chk("CFB-dec", &model::cfb_dec(c.as_ref(), &iv, &h("3b3fd92eb72dad20333449f8e83cfb4a c8a64537a0b3a93fcde3cdad9f1ce58b")).0, &hex(&pt))?;
    chk("CFB8", &model::cfb8_enc(c.as_ref(), &iv, &pt[..18]).0, "3b79424c9c0dd436bace9e0ed4586a4f32b9")?;
    chk("CFB8-dec", &model::cfb8_dec(c.as_ref(), &iv, &h("3b79424c9c0dd436bace9e0ed4586a4f32b9")).0, &hex(&pt[..18]))?;
    chk("OFB", &model::ofb(c.as_ref(), &iv, &pt).0, "3b3fd92eb72dad20333449f8e83cfb4a 7789508d16918f03f53c52dac54ed825")?;
    let ctr_iv = h("f0f1f2f3f4f5f6f7f8f9fafbfcfdfeff");
    let ks = model::KsModel::new(c.as_ref(), StreamKind::Ctr(128, true), &ctr_iv);
    chk("CTR128BE", &ks.apply(0, &pt), "874d6191b620e3261bef6864990db6ce 9806f66b7970fdff8617187bb9fffdff")?;
    // a 32-bit BE counter gives the same stream here (no wrap within two blocks)
    let ks32 = model::KsModel::new(c.as_ref(), StreamKind::Ctr(32, true), &ctr_iv);
    chk("CTR32BE", &ks32.apply(0, &pt), "874d6191b620e3261bef6864990db6ce 9806f66b7970fdff8617187bb9fffdff")?;
    // counter layout unit checks
    let ivx = h("00112233445566778899aabbccddeeff");
    chk("layout32BE", &model::ctr_block(&ivx, 32, true, 0x0000_0002), "00112233445566778899aabbccddef01")?;
    chk("layout32BE-wrap", &model::ctr_block(&ivx, 32, true, 0x3322_1101), "00112233445566778899aabb00000000")?;
    chk("layout32LE", &model::ctr_block(&ivx, 32, false, 0xff), "ff112233445566778899aabbccddeeff")?;
    chk("layout64LE-wrap", &model::ctr_block(&h("ffffffffffffffff8899aabbccddeeff"), 64, false, 1), "00000000000000008899aabbccddeeff")?;
    chk("layout128BE-wrap", &model::ctr_block(&h("ffffffffffffffffffffffffffffffff"), 128, true, 2), "00000000000000000000000000000001")?;
    chk("layout64BE", &model::ctr_block(&ivx, 64, true, 0x100), "00112233445566778899aabbccddefff")?;

    // RFC 3962 (CBC-CS3, AES-128)
    let key = h("636869636b656e207465726979616b69");
    let iv = vec![0u8; 16];
    let c = (aes.keyed)(&key);
    let vecs = [
        ("4920776f756c64206c696b652074686520", "c6353568f2bf8cb4d8a580362da7ff7f97"),
        (
            "4920776f756c64206c696b65207468652047656e6572616c20476175277320",
            "fc00783e0efdb2c1d445d4c8eff7ed2297687268d6ecccc0c07b25e25ecfe5",
        ),
        (
            "4920776f756c64206c696b65207468652047656e6572616c2047617527732043",
            "39312523a78662d5be7fcbcc98ebf5a897687268d6ecccc0c07b25e25ecfe584",
        ),
        (
            "4920776f756c64206c696b65207468652047656e6572616c20476175277320436869636b656e2c20706c656173652c",
            "97687268d6ecccc0c07b25e25ecfe584b3fffd940c16a18c1b5549d2f838029e39312523a78662d5be7fcbcc98ebf5",
        ),
        (
            "4920776f756c64206c696b65207468652047656e6572616c20476175277320436869636b656e2c20706c656173652c20616e6420776f6e746f6e20736f75702e",
            "97687268d6ecccc0c07b25e25ecfe58439312523a78662d5be7fcbcc98ebf5a84807efe836ee89a526730dbc2f7bc8409dad8bbb96c4cdc03bc103e1a194bbd8",
        ),
    ];
    for (p, ct) in vecs {
        let p = h(p);
        chk("CBC-CS3", &model::cts_enc(c.as_ref(), CtsVariant::CbcCs3, &iv, &p), ct)?;
        chk("CBC-CS3-dec", &model::cts_dec(c.as_ref(), CtsVariant::CbcCs3, &iv, &h(ct)), &hex(&p))?;
    }
    // CTS model internal consistency: dec(enc(m)) = m for all variants and residues (toy, 5-byte blocks)
    if let Some(t5) = ctx.suite_named("Toy5x4") {
        let c = (t5.keyed)(&[7u8; 16]);
        for v in CtsVariant::ALL {
            for len in 5..26 {
                let m: Vec<u8> = (0..len as u8).map(|i| i.wrapping_mul(37) ^ 0x5a).collect();
                let iv = [1u8, 2, 3, 4, 5];
                let ct = model::cts_enc(c.as_ref(), v, &iv, &m);
                if ct.len() != m.len() || model::cts_dec(c.as_ref(), v, &iv, &ct) != m {
                    return Err(format!("CTS model {v:?} does not round-trip at len {len}"));
                }
            }
        }
    }

    // STB 34.101.31 table A.15 (BelT-CTR)
    if let Some(b) = ctx.suite_named("BeltBlock") {
        let key = h("e9dee72c8f0c0fa62ddb49f46f73964706075316ed247a3739cba38303a98bf6");
        let iv = h("be32971343fc9a48a02a885f194b09a1");
        let pt = h("b194bac80a08f53b366d008e584a5de48504fa9d1bb6c7ac252e72c202fdce0d5be3d61217b96181fe6786ad716b890b");
        let c = (b.keyed)(&key);
        let ks = model::KsModel::new(c.as_ref(), StreamKind::Belt, &iv);
        chk(
            "BelT-CTR",
            &ks.apply(0, &pt),
            "52c9af96ff50f64435fc43def56bd797d5b5b1ff79fb41257ab9cdf6e63e81f8f00341473eae409833622de05213773a",
        )?;
    }

    // round-trip sanity of the models that have no published vectors (PCBC, IGE)
    let c = (aes.keyed)(&[9u8; 16]);
    let iv2: Vec<u8> = (0..32).collect();
    let m: Vec<u8> = (0..64).map(|i| (i * 7 + 3) as u8).collect();
    let (ct, st_e) = model::ige_enc(c.as_ref(), &iv2, &m);
    let (pt2, st_d) = model::ige_dec(c.as_ref(), &iv2, &ct);
    if pt2 != m || st_e != st_d {
        return Err("IGE model does not round-trip".into());
    }
    let (ct, st_e) = model::pcbc_enc(c.as_ref(), &iv2[..16], &m);
    let (pt2, st_d) = model::pcbc_dec(c.as_ref(), &iv2[..16], &ct);
    if pt2 != m || st_e != st_d {
        return Err("PCBC model does not round-trip".into());
    }
    // IGE: OpenSSL's test vector (key 00..0f, IV 00..1f, 32 zero bytes)
    let c = (aes.keyed)(&(0..16).collect::<Vec<u8>>());
    let ige_ct = model::ige_enc(c.as_ref(), &iv2, &[0u8; 32]).0;
    chk("IGE", &ige_ct, "1a8519a6557be652e9da8e43da4ef4453cf456b4ca488aa383c79c98b34797cb")?;
    Ok(())
}
