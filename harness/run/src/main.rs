//! vp-run: proptest-driven runner, corpus/replay evaluation, evidence writer.
//!
//! usage: vp-run <ID> [--tier quick|thorough] [--seed N] [--cases N] [--threads N]
//!               [--replay FILE] [--extra-corpus DIR]... [--root /verif] [--list]
//!
//! exit 0: property held on everything explored (KNOWN-FINDING lines may have been printed)
//! exit 1: `VIOLATION property=<id> replay=<path>` printed
//! exit 2: no verdict (harness-internal error, bad usage)

use proptest::strategy::{Strategy, ValueTree};
use proptest::test_runner::{Config, RngSeed, TestCaseError, TestError, TestRunner};
use serde_json::json;
use std::collections::{BTreeMap, HashSet};
use std::path::{Path, PathBuf};
use std::sync::Mutex;
use std::sync::atomic::{AtomicBool, Ordering};
use std::time::Instant;
use vp_core::checks::{self, PropDef};
use vp_core::common::{Ctx, Violation};
use vp_core::engine::{CaseOutcome, eval_case, install_panic_hook};
use vp_core::tape::{hash_bytes, hex, unhex};

struct Args {
    id: String,
    tier: String,
    seed: u64,
    cases: Option<u64>,
    scale_pct: u64,
    threads: usize,
    replay: Option<PathBuf>,
    extra: Vec<PathBuf>,
    root: PathBuf,
    no_evidence: bool,
    part: Option<String>,
    long_call_probe: bool,
    dump_seeds: Option<(PathBuf, usize)>,
    fuzz_executed: Option<u64>,
}

fn parse_args() -> Result<Args, String> {
    let mut a = Args {
        id: String::new(),
        tier: std::env::var("VERIF_TIER").unwrap_or_else(|_| "quick".into()),
        seed: std::env::var("VERIF_SEED").ok().and_then(|s| s.trim().parse().ok()).unwrap_or(0),
        cases: None,
        scale_pct: 100,
        threads: 16,
        replay: None,
        extra: Vec::new(),
        root: PathBuf::from("/verif"),
        no_evidence: false,
        part: None,
        long_call_probe: false,
        dump_seeds: None,
        fuzz_executed: None,
    };
    let mut it = std::env::args().skip(1);
    while let Some(x) = it.next() {
        match x.as_str() {
            "--tier" => a.tier = it.next().ok_or("--tier needs a value")?,
            "--seed" => a.seed = it.next().ok_or("--seed needs a value")?.parse().map_err(|_| "bad seed")?,
            "--cases" => a.cases = Some(it.next().ok_or("--cases needs a value")?.parse().map_err(|_| "bad cases")?),
            "--scale-pct" => a.scale_pct = it.next().ok_or("--scale-pct needs a value")?.parse().map_err(|_| "bad percentage")?,
            "--threads" => a.threads = it.next().ok_or("--threads needs a value")?.parse().map_err(|_| "bad threads")?,
            "--replay" => a.replay = Some(PathBuf::from(it.next().ok_or("--replay needs a path")?)),
            "--extra-corpus" => a.extra.push(PathBuf::from(it.next().ok_or("--extra-corpus needs a dir")?)),
            "--root" => a.root = PathBuf::from(it.next().ok_or("--root needs a dir")?),
            "--no-evidence" => a.no_evidence = true,
            "--long-call-probe" => a.long_call_probe = true,
            "--part" => a.part = Some(it.next().ok_or("--part needs a value")?),
            "--dump-seeds" => {
                let d = PathBuf::from(it.next().ok_or("--dump-seeds needs a dir")?);
                let n = it.next().ok_or("--dump-seeds needs a count")?.parse().map_err(|_| "bad count")?;
                a.dump_seeds = Some((d, n));
            }
            "--fuzz-executed" => a.fuzz_executed = it.next().and_then(|v| v.trim().parse().ok()),
            "--tape-len" => {
                let id = a.id.clone();
                match checks::prop(&id) {
                    Some(p) => println!("{}", p.tape_len),
                    None => std::process::exit(2),
                }
                std::process::exit(0);
            }
            "--list" => {
                for p in checks::props() {
                    println!("{}", p.id);
                }
                std::process::exit(0);
            }
            s if !s.starts_with('-') && a.id.is_empty() => a.id = s.to_string(),
            s => return Err(format!("unknown argument {s}")),
        }
    }
    if a.id.is_empty() {
        return Err("missing property id".into());
    }
    if a.tier != "quick" && a.tier != "thorough" {
        return Err(format!("bad tier {}", a.tier));
    }
    Ok(a)
}

// ---------------------------------------------------------------------------------------
// tapes on disk

fn read_tape_file(p: &Path) -> Result<Vec<u8>, String> {
    let raw = std::fs::read(p).map_err(|e| format!("cannot read {}: {e}", p.display()))?;
    // JSON replay file?
    if let Ok(v) = serde_json::from_slice::<serde_json::Value>(&raw) {
        if let Some(h) = v.get("tape").and_then(|t| t.as_str()) {
            return unhex(h).ok_or_else(|| format!("bad hex in {}", p.display()));
        }
    }
    // hex text?
    if let Ok(s) = std::str::from_utf8(&raw) {
        let body: String = s
            .lines()
            .filter(|l| !l.trim_start().starts_with('#'))
            .collect::<Vec<_>>()
            .join("");
        let body: String = body.chars().filter(|c| !c.is_whitespace()).collect();
        if !body.is_empty() && body.chars().all(|c| c.is_ascii_hexdigit()) {
            if let Some(b) = unhex(&body) {
                return Ok(b);
            }
        }
    }
    Ok(raw)
}

fn list_files(dir: &Path) -> Vec<PathBuf> {
    let mut v: Vec<PathBuf> = match std::fs::read_dir(dir) {
        Ok(rd) => rd.filter_map(|e| e.ok()).map(|e| e.path()).filter(|p| p.is_file()).collect(),
        Err(_) => Vec::new(),
    };
    v.sort();
    v
}

fn fit(tape: &[u8], len: usize) -> Vec<u8> {
    let mut v = tape.to_vec();
    v.resize(len, 0);
    v
}

// ---------------------------------------------------------------------------------------
// statistics

#[derive(Default)]
struct Stats {
    evaluations: u64,
    nontrivial_hashes: HashSet<u64>,
    classes: BTreeMap<String, u64>,
    samples: Vec<String>,
    excluded_known: u64,
}

impl Stats {
    fn merge(&mut self, o: Stats) {
        self.evaluations += o.evaluations;
        self.nontrivial_hashes.extend(o.nontrivial_hashes);
        for (k, v) in o.classes {
            *self.classes.entry(k).or_default() += v;
        }
        for s in o.samples {
            if self.samples.len() < 6 {
                self.samples.push(s);
            }
        }
        self.excluded_known += o.excluded_known;
    }
    fn absorb(&mut self, report: &vp_core::common::Report, hash: u64) {
        self.evaluations += 1;
        self.excluded_known += report.excluded_known as u64;
        if report.nontrivial {
            self.nontrivial_hashes.insert(hash);
            *self.classes.entry("nontrivial".into()).or_default() += 1;
        }
        for l in &report.labels {
            *self.classes.entry((*l).to_string()).or_default() += 1;
        }
        if report.nontrivial && report.want_desc && self.samples.len() < 3 && !report.desc.is_empty() {
            self.samples.push(report.desc.clone());
        }
    }
}

struct Failure {
    tape: Vec<u8>,
    v: Violation,
    desc: String,
    engine: String,
}

/// Greedy minimisation of a failing tape that did not come out of proptest's shrinker (corpus
/// entries, libFuzzer artifacts): zero bytes, then halve them, while the same signature fails.
fn minimise(ctx: &Ctx, p: &PropDef, tape: &[u8], sig: &str) -> Vec<u8> {
    let same = |t: &[u8]| matches!(eval_case(ctx, p, t, false), CaseOutcome::Fail { v, .. } if v.sig == sig);
    let mut best = tape.to_vec();
    let mut changed = true;
    let mut rounds = 0;
    while changed && rounds < 8 {
        changed = false;
        rounds += 1;
        for i in (0..best.len()).rev() {
            if best[i] == 0 {
                continue;
            }
            let mut cand = best.clone();
            cand[i] = 0;
            if same(&cand) {
                best = cand;
                changed = true;
                continue;
            }
            let mut v = best[i];
            while v > 1 {
                v /= 2;
                let mut cand = best.clone();
                cand[i] = v;
                if same(&cand) {
                    best = cand;
                    changed = true;
                } else {
                    break;
                }
            }
        }
    }
    best
}

fn eval_into(ctx: &Ctx, p: &PropDef, tape: &[u8], stats: &mut Stats, engine: &str) -> Result<Option<Failure>, String> {
    let want = stats.samples.len() < 3;
    match eval_case(ctx, p, tape, want) {
        CaseOutcome::Pass { report, hash } => {
            stats.absorb(&report, hash);
            Ok(None)
        }
        CaseOutcome::Fail { v, .. } => {
            // minimise, then re-run for the description
            let small = minimise(ctx, p, tape, &v.sig);
            match eval_case(ctx, p, &small, true) {
                CaseOutcome::Fail { v, report } => Ok(Some(Failure {
                    tape: small,
                    v,
                    desc: report.desc,
                    engine: engine.into(),
                })),
                _ => Ok(Some(Failure {
                    tape: tape.to_vec(),
                    v,
                    desc: String::new(),
                    engine: engine.into(),
                })),
            }
        }
        CaseOutcome::Internal(m) => Err(m),
    }
}

// ---------------------------------------------------------------------------------------
// proptest engine

fn worker_seed(seed: u64, id: &str, worker: usize) -> u64 {
    let mut h = hash_bytes(id.as_bytes()) ^ seed.wrapping_mul(0x9E37_79B9_7F4A_7C15);
    h = h.rotate_left(17) ^ (worker as u64).wrapping_mul(0xD6E8_FEB8_6659_FD93);
    h ^ (h >> 31)
}

enum WorkerResult {
    Ok(Stats),
    Fail(Stats, Failure),
    Internal(String),
}

fn run_worker(ctx: &Ctx, p: &PropDef, cases: u64, seed: u64, stop: &AtomicBool) -> WorkerResult {
    let mut cfg = Config::default();
    cfg.cases = cases.min(u32::MAX as u64) as u32;
    cfg.failure_persistence = None;
    cfg.rng_seed = RngSeed::Fixed(seed);
    cfg.max_shrink_iters = 200_000;
    cfg.max_shrink_time = 0;
    cfg.max_global_rejects = 0;
    cfg.verbose = 0;
    cfg.source_file = None;
    cfg.test_name = None;
    let mut runner = TestRunner::new(cfg);
    let len = p.tape_len;
    let strat = proptest::collection::vec(proptest::prelude::any::<u8>(), len..=len);
    let stats = std::cell::RefCell::new(Stats::default());
    let first_sig: std::cell::RefCell<Option<String>> = Default::default();
    let internal: std::cell::RefCell<Option<String>> = Default::default();
    let result = runner.run(&strat, |tape| {
        if internal.borrow().is_some() {
            return Ok(());
        }
        let failed_already = first_sig.borrow().is_some();
        if !failed_already && stop.load(Ordering::Relaxed) {
            // another worker found a failure: finish quickly
            return Ok(());
        }
        if failed_already {
            // shrinking: only the same violation counts
            match eval_case(ctx, p, &tape, false) {
                CaseOutcome::Fail { v, .. } if Some(&v.sig) == first_sig.borrow().as_ref() => Err(TestCaseError::fail(v.sig)),
                _ => Ok(()),
            }
        } else {
            let want = stats.borrow().samples.len() < 3;
            match eval_case(ctx, p, &tape, want) {
                CaseOutcome::Pass { report, hash } => {
                    stats.borrow_mut().absorb(&report, hash);
                    Ok(())
                }
                CaseOutcome::Fail { v, .. } => {
                    *first_sig.borrow_mut() = Some(v.sig.clone());
                    stop.store(true, Ordering::Relaxed);
                    Err(TestCaseError::fail(v.sig))
                }
                CaseOutcome::Internal(m) => {
                    *internal.borrow_mut() = Some(m);
                    Ok(())
                }
            }
        }
    });
    if let Some(m) = internal.into_inner() {
        return WorkerResult::Internal(m);
    }
    let stats = stats.into_inner();
    match result {
        Ok(()) => WorkerResult::Ok(stats),
        Err(TestError::Fail(_, tape)) => {
            // domain-aware final pass: zero trailing bytes / whole tape suffixes while the same signature persists
            let sig = first_sig.into_inner().unwrap_or_default();
            let mut best = tape.clone();
            let mut cut = best.len();
            while cut > 0 {
                let mut cand = best.clone();
                for b in cand[cut - 1..].iter_mut() {
                    *b = 0;
                }
                if cand != best {
                    if let CaseOutcome::Fail { v, .. } = eval_case(ctx, p, &cand, false) {
                        if v.sig == sig {
                            best = cand;
                        }
                    }
                }
                cut -= 1;
            }
            match eval_case(ctx, p, &best, true) {
                CaseOutcome::Fail { v, report } => WorkerResult::Fail(
                    stats,
                    Failure {
                        tape: best,
                        v,
                        desc: report.desc,
                        engine: "proptest".into(),
                    },
                ),
                CaseOutcome::Internal(m) => WorkerResult::Internal(m),
                CaseOutcome::Pass { .. } => WorkerResult::Internal("shrunk tape no longer fails (non-deterministic check?)".into()),
            }
        }
        Err(TestError::Abort(r)) => WorkerResult::Internal(format!("proptest aborted: {r}")),
    }
}

// silence unused warnings for traits imported for method resolution on some proptest versions
#[allow(dead_code)]
fn _unused<S: Strategy>(s: S, r: &mut TestRunner) {
    let _ = s.new_tree(r).map(|t| t.current());
}

// ---------------------------------------------------------------------------------------

fn build_label() -> &'static str {
    match (vp_core::ZEROIZE, cfg!(debug_assertions)) {
        (true, _) => "mode crates built with their zeroize feature; debug assertions and overflow checks on",
        (false, true) => "default features; debug assertions and overflow checks on",
        (false, false) => "default features; as shipped (no debug assertions, wrapping arithmetic)",
    }
}

fn write_replay(root: &Path, id: &str, seed: u64, f: &Failure) -> PathBuf {
    let dir = root.join("replays");
    let _ = std::fs::create_dir_all(&dir);
    let name = format!("{}-{:016x}.json", id, hash_bytes(&f.tape) ^ hash_bytes(f.v.sig.as_bytes()));
    let path = dir.join(name);
    let j = json!({
        "property": id,
        "engine": f.engine,
        "seed": seed,
        "build": build_label(),
        "tape": hex(&f.tape),
        "decoded": f.desc,
        "sig": f.v.sig,
        "message": f.v.msg,
    });
    let _ = std::fs::write(&path, serde_json::to_string_pretty(&j).unwrap());
    path
}

/// Runs the long-call cases of one property on a thread with a 1 MiB stack and exits:
/// 0 = all equal to the model, 1 = VIOLATION printed (mismatch or panic in the code under test),
/// 2 = harness problem. A stack overflow or abort kills the process; the driver script turns
/// that into the violation.
fn long_call_probe(ctx: Ctx, id: &'static str, args: &Args) -> ! {
    let thorough = args.tier == "thorough";
    let seed = args.seed;
    let scale = args.scale_pct as usize;
    let t0 = Instant::now();
    let h = std::thread::Builder::new()
        .name("long-call".into())
        .stack_size(1 << 20)
        .spawn(move || {
            let r = std::panic::catch_unwind(std::panic::AssertUnwindSafe(|| vp_core::longcall::run(&ctx, id, seed, thorough, scale)));
            match r {
                Ok(r) => r.map_err(|v| (v.sig, v.msg)),
                Err(_) => match vp_core::engine::take_foreign_panic() {
                    Some(text) => Err((format!("{id}/long-call-panic"), format!("code under test panicked: {text}"))),
                    None => Err(("harness".into(), "panic inside the harness".into())),
                },
            }
        })
        .expect("spawn");
    let res = match h.join() {
        Ok(r) => r,
        Err(_) => Err(("harness".into(), "probe thread died".into())),
    };
    let wall = t0.elapsed().as_secs_f64();
    match res {
        Ok(st) => {
            let ev = json!({
                "coverage": {
                    "evaluations": st.cases,
                    "distinct_nontrivial": st.cases,
                    "excluded_known": 0,
                    "classes": { "long-single-call": st.cases },
                    "engines": { "long-call probe (own process, 1 MiB stack, reference-model oracle)": st.cases },
                    "samples": st.samples,
                    "long_call_bytes": st.bytes,
                },
                "wall_s": wall,
                "violations": 0,
            });
            if !args.no_evidence {
                let _ = std::fs::create_dir_all(args.root.join("evidence"));
                let _ = std::fs::write(args.root.join("evidence").join(format!("{id}.longcall{}.part.json", if cfg!(debug_assertions) && scale < 100 { "dev" } else { "" })), serde_json::to_string_pretty(&ev).unwrap());
            }
            println!("{id} long-call probe: {} single calls, {} bytes, all equal to the model, wall={wall:.1}s", st.cases, st.bytes);
            std::process::exit(0);
        }
        Err((sig, msg)) if sig == "harness" => {
            eprintln!("vp-run: long-call probe: {msg}");
            std::process::exit(2);
        }
        Err((sig, msg)) => {
            let dir = args.root.join("replays");
            let _ = std::fs::create_dir_all(&dir);
            let path = dir.join(format!("{id}-long-call.json"));
            let j = json!({ "property": id, "probe": "long-call", "seed": seed, "tier": args.tier, "sig": sig, "message": msg });
            let _ = std::fs::write(&path, serde_json::to_string_pretty(&j).unwrap());
            println!("{id}: {sig}: {msg}");
            println!("VIOLATION property={id} replay={}", path.display());
            std::process::exit(1);
        }
    }
}

fn main() {
    let args = match parse_args() {
        Ok(a) => a,
        Err(e) => {
            eprintln!("vp-run: {e}");
            std::process::exit(2);
        }
    };
    let Some(p) = checks::prop(&args.id) else {
        eprintln!("vp-run: unknown property {}", args.id);
        std::process::exit(2);
    };
    install_panic_hook();
    if let Err(e) = vp_core::toy::self_check() {
        eprintln!("vp-run: harness self-check failed: {e}");
        std::process::exit(2);
    }
    let t0 = Instant::now();
    let mut ctx = Ctx::new();
    if let Err(e) = vp_core::selfcheck::run(&ctx, &args.id) {
        eprintln!("vp-run: harness self-check failed: {e}");
        std::process::exit(2);
    }

    // --- long single calls: a process of its own (see core/src/longcall.rs) ----------------------
    if args.long_call_probe {
        long_call_probe(ctx, p.id, &args);
    }

    // --- known findings: deterministic probes ------------------------------------------------
    let known = vp_core::known::load(&args.root);
    let mut known_lines = Vec::new();
    match vp_core::known::activate(&mut ctx, &p, &known) {
        Ok(rep) => {
            for k in rep {
                println!("KNOWN-FINDING: property={} sig={} {} [{}]", p.id, k.sig, k.listed_text, k.probe_text);
                known_lines.push(format!("{}: {}", k.sig, k.probe_text));
            }
        }
        Err(e) => {
            eprintln!("vp-run: {e}");
            std::process::exit(2);
        }
    }

    // --- replay mode --------------------------------------------------------------------------
    if let Some(path) = &args.replay {
        let tape = match read_tape_file(path) {
            Ok(t) => fit(&t, p.tape_len),
            Err(e) => {
                eprintln!("vp-run: {e}");
                std::process::exit(2);
            }
        };
        match eval_case(&ctx, &p, &tape, true) {
            CaseOutcome::Pass { report, .. } => {
                println!("replay {}: holds ({})", path.display(), report.desc);
                std::process::exit(0);
            }
            CaseOutcome::Fail { v, report } => {
                println!("replay {}: {} -- {}\n  case: {}", path.display(), v.sig, v.msg, report.desc);
                println!("VIOLATION property={} replay={}", p.id, path.display());
                std::process::exit(1);
            }
            CaseOutcome::Internal(m) => {
                eprintln!("vp-run: {m}");
                std::process::exit(2);
            }
        }
    }

    if let Some((dir, n)) = &args.dump_seeds {
        // write the first n distinct non-trivial tapes of a fixed pseudo-random sequence (fuzz seed corpus)
        let _ = std::fs::create_dir_all(dir);
        let mut st = 0x5EED_u64 ^ hash_bytes(p.id.as_bytes());
        let mut seen = HashSet::new();
        let mut written = 0;
        let mut tries = 0;
        while written < *n && tries < 200_000 {
            tries += 1;
            let tape: Vec<u8> = (0..p.tape_len).map(|_| vp_core::tape::splitmix(&mut st) as u8).collect();
            if let CaseOutcome::Pass { report, hash } = eval_case(&ctx, &p, &tape, false) {
                let key = report.labels.join(",");
                if report.nontrivial && seen.insert((key, hash % 4)) {
                    let _ = std::fs::write(dir.join(format!("seed-{written:03}.bin")), &tape);
                    written += 1;
                }
            }
        }
        println!("wrote {written} seed tapes to {}", dir.display());
        std::process::exit(0);
    }

    let mut total = Stats::default();
    let mut engines: BTreeMap<String, u64> = BTreeMap::new();
    let mut failure: Option<Failure> = None;

    // --- committed corpus + extra corpora ---------------------------------------------------
    let mut dirs = vec![("corpus".to_string(), args.root.join("corpus").join(p.id))];
    for (i, d) in args.extra.iter().enumerate() {
        dirs.push((format!("extra{i}:{}", d.file_name().map(|s| s.to_string_lossy().to_string()).unwrap_or_default()), d.clone()));
    }
    'outer: for (name, dir) in &dirs {
        let before = total.evaluations;
        for f in list_files(dir) {
            let tape = match read_tape_file(&f) {
                Ok(t) => fit(&t, p.tape_len),
                Err(e) => {
                    eprintln!("vp-run: {e}");
                    std::process::exit(2);
                }
            };
            match eval_into(&ctx, &p, &tape, &mut total, name) {
                Ok(None) => {}
                Ok(Some(fl)) => {
                    failure = Some(fl);
                    break 'outer;
                }
                Err(m) => {
                    eprintln!("vp-run: {m} (tape {})", f.display());
                    std::process::exit(2);
                }
            }
        }
        engines.insert(name.clone(), total.evaluations - before);
    }

    // --- generated search -----------------------------------------------------------------------
    let cases = args.cases.unwrap_or(if args.tier == "quick" { p.quick_cases } else { p.thorough_cases }) * args.scale_pct / 100;
    if failure.is_none() && cases > 0 {
        let threads = args.threads.max(1);
        let per = cases.div_ceil(threads as u64);
        let stop = AtomicBool::new(false);
        let results: Mutex<Vec<(usize, WorkerResult)>> = Mutex::new(Vec::new());
        std::thread::scope(|s| {
            for w in 0..threads {
                let ctx = &ctx;
                let p = &p;
                let stop = &stop;
                let results = &results;
                let seed = worker_seed(args.seed, p.id, w);
                std::thread::Builder::new()
                    .stack_size(16 << 20)
                    .spawn_scoped(s, move || {
                        install_thread();
                        let r = run_worker(ctx, p, per, seed, stop);
                        results.lock().unwrap().push((w, r));
                    })
                    .expect("spawn worker");
            }
        });
        let mut rs = results.into_inner().unwrap();
        rs.sort_by_key(|(w, _)| *w);
        let before = total.evaluations;
        for (_, r) in rs {
            match r {
                WorkerResult::Ok(s) => total.merge(s),
                WorkerResult::Fail(s, f) => {
                    total.merge(s);
                    if failure.is_none() {
                        failure = Some(f);
                    }
                }
                WorkerResult::Internal(m) => {
                    eprintln!("vp-run: {m}");
                    std::process::exit(2);
                }
            }
        }
        engines.insert("proptest".into(), total.evaluations - before);
    }

    let wall = t0.elapsed().as_secs_f64();
    let violations = if failure.is_some() { 1 } else { 0 };
    let mut replay_path = None;
    if let Some(f) = &failure {
        let path = write_replay(&args.root, p.id, args.seed, f);
        println!("{}: {} -- {}", p.id, f.v.sig, f.v.msg);
        println!("  case: {}", f.desc);
        println!("  tape: {}", hex(&f.tape));
        replay_path = Some(path);
    }

    // --- evidence --------------------------------------------------------------------------------
    if !args.no_evidence {
        let mut samples: Vec<serde_json::Value> = total.samples.iter().map(|s| json!(s)).collect();
        if samples.is_empty() {
            samples.push(json!("(no non-trivial case was described in this run)"));
        }
        let ev = json!({
            "property_id": p.id,
            "tier": args.tier,
            "seed": args.seed,
            "level": "exploration",
            "coverage": {
                "evaluations": total.evaluations,
                "distinct_nontrivial": total.nontrivial_hashes.len(),
                "rule": p.rule,
                "samples": samples,
                "classes": total.classes,
                "excluded_known": total.excluded_known,
                "engines": engines,
                "known_findings_reproduced": known_lines,
                "cipher_configs": ctx.suites().count(),
                "libfuzzer_executions": args.fuzz_executed.unwrap_or(0),
                "zeroize_build": vp_core::ZEROIZE,
                "build": build_label(),
            },
            "assumptions": p.assumptions,
            "wall_s": wall,
            "violations": violations,
        });
        let name = match &args.part {
            Some(part) => format!("{}.{}.part.json", p.id, part),
            None => format!("{}.json", p.id),
        };
        let dir = args.root.join("evidence");
        let _ = std::fs::create_dir_all(&dir);
        if let Err(e) = std::fs::write(dir.join(name), serde_json::to_string_pretty(&ev).unwrap() + "\n") {
            eprintln!("vp-run: cannot write evidence: {e}");
            std::process::exit(2);
        }
    }
    println!(
        "{} {} seed={} evaluations={} distinct_nontrivial={} excluded_known={} wall={:.1}s",
        p.id,
        args.tier,
        args.seed,
        total.evaluations,
        total.nontrivial_hashes.len(),
        total.excluded_known,
        wall
    );
    if let Some(path) = replay_path {
        println!("VIOLATION property={} replay={}", p.id, path.display());
        std::process::exit(1);
    }
}

fn install_thread() {
    // the panic hook is process-global; nothing per-thread to do, kept for symmetry
}
