fn main() {
    vp_core::toy::self_check().unwrap();
    let s = vp_core::registry::all_suites();
    println!("{} suites", s.len());
    for x in &s { println!("{} bs={} par={} bm={} st={} cts={}", x.info.name, x.info.bs, x.info.par, x.block_modes.len(), x.streams.len(), x.cts.len()); }
}
