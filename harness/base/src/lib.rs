//! vp-base: harness-owned ciphers, the tape, the object-safe views and the adapters.
pub mod adapt;
pub mod obj;
pub mod regmac;
pub mod tape;
pub mod toy;

/// Re-exports used by the registry macros.
pub mod deps {
    pub use aes;
    pub use belt_block;
    pub use belt_ctr;
    pub use cbc;
    pub use cfb8;
    pub use cfb_mode;
    pub use cipher;
    pub use ctr;
    pub use cts;
    pub use ige;
    pub use kuznyechik;
    pub use magma;
    pub use ofb;
    pub use pcbc;
}

pub const ZEROIZE: bool = cfg!(feature = "zeroize");
