//! Macros that instantiate every repository type over one cipher configuration and
//! return a [`Suite`](crate::obj::Suite).  They are expanded in the small `vp-reg*` crates so
//! that the monomorphisation work is spread over many compiler processes.

use crate::obj::CipherObj;
use crate::toy::{ToyKey, toy_decrypt, toy_encrypt};
use cipher::{BlockCipherDecrypt, BlockCipherEncrypt};
use core::marker::PhantomData as PD;

// ---------------------------------------------------------------------------------------
// model-side cipher objects

pub struct ToyModel {
    pub key: ToyKey,
    pub bs: usize,
}
impl CipherObj for ToyModel {
    fn bs(&self) -> usize {
        self.bs
    }
    fn enc(&self, block: &mut [u8]) {
        assert_eq!(block.len(), self.bs, "harness: model block length");
        toy_encrypt(&self.key, block)
    }
    fn dec(&self, block: &mut [u8]) {
        assert_eq!(block.len(), self.bs, "harness: model block length");
        toy_decrypt(&self.key, block)
    }
}

pub struct Keyed<C>(pub C);
impl<C: BlockCipherEncrypt + BlockCipherDecrypt> CipherObj for Keyed<C> {
    fn bs(&self) -> usize {
        C::block_size()
    }
    fn enc(&self, block: &mut [u8]) {
        let b: &mut cipher::Block<C> = block.try_into().expect("harness: model block length");
        self.0.encrypt_block(b)
    }
    fn dec(&self, block: &mut [u8]) {
        let b: &mut cipher::Block<C> = block.try_into().expect("harness: model block length");
        self.0.decrypt_block(b)
    }
}

pub fn cipher_par_enc<C: BlockCipherEncrypt>(c: &C) -> usize {
    struct P<'a, BS>(&'a mut usize, PD<BS>);
    impl<BS: cipher::crypto_common::BlockSizes> cipher::BlockSizeUser for P<'_, BS> {
        type BlockSize = BS;
    }
    impl<BS: cipher::crypto_common::BlockSizes> cipher::BlockCipherEncClosure for P<'_, BS> {
        fn call<B: cipher::BlockCipherEncBackend<BlockSize = BS>>(self, _: &B) {
            *self.0 = <B::ParBlocksSize as cipher::typenum::Unsigned>::USIZE;
        }
    }
    let mut p = 0;
    c.encrypt_with_backend(P(&mut p, PD));
    p
}

// ---------------------------------------------------------------------------------------

#[macro_export]
macro_rules! reg_bm_enc {
    ($v:ident, $mode:expr, $fam:literal, $ty:ty, $cname:expr) => {{
        $crate::impl_block_mode!(enc, $ty);
        $v.push(Box::new(BmEF::<$ty>(
            $mode,
            format!("{}<{}>", $fam, $cname),
            core::marker::PhantomData,
        )) as Box<dyn $crate::obj::BlockModeFactory>);
    }};
}
#[macro_export]
macro_rules! reg_bm_dec {
    ($v:ident, $mode:expr, $fam:literal, $ty:ty, $cname:expr) => {{
        $crate::impl_block_mode!(dec, $ty);
        $v.push(Box::new(BmDF::<$ty>(
            $mode,
            format!("{}<{}>", $fam, $cname),
            core::marker::PhantomData,
        )) as Box<dyn $crate::obj::BlockModeFactory>);
    }};
}
#[macro_export]
macro_rules! reg_stream {
    ($v:ident, $kind:expr, $fam:literal, $corefam:literal, $core:ty, $alias:ty, $tag:ty, $cname:expr) => {{
        $crate::impl_stream!($core, $alias, $tag);
        $v.push(Box::new(StF::<$core>(
            $kind,
            format!("{}<{}>", $fam, $cname),
            format!("{}<{}>", $corefam, $cname),
            core::marker::PhantomData,
        )) as Box<dyn $crate::obj::StreamFactory>);
    }};
}
#[macro_export]
macro_rules! reg_cts {
    ($v:ident, $which:ident, $variant:expr, $fam:literal, $ty:ty, $cname:expr) => {{
        $crate::impl_cts!($which, $ty);
        $v.push(Box::new(CtsF::<$ty>(
            $variant,
            format!("{}<{}>", $fam, $cname),
            core::marker::PhantomData,
        )) as Box<dyn $crate::obj::CtsFactory>);
    }};
}

/// One CTR flavour. `alias`: the byte-level cipher is named through the crate's public alias
/// (`ctr::Ctr64BE<C>`); `noalias`: through `StreamCipherCoreWrapper<CtrCore<C, F>>`. Aliases are
/// used only for block sizes that are multiples of 16 bytes, where every flavour is a valid
/// instantiation, so that the harness still builds if an alias is pointed at another flavour.
#[macro_export]
macro_rules! reg_ctr_one {
    ($v:ident, $c:ty, $cname:expr, $fl:ident, $w:literal, $be:literal, $fam:literal, $corefam:literal, alias) => {
        $crate::reg_stream!($v, $crate::obj::StreamKind::Ctr($w, $be), $fam, $corefam,
            $crate::deps::ctr::CtrCore<$c, $crate::deps::ctr::flavors::$fl>, $crate::deps::ctr::$fl<$c>, TagCtr<$w, $be>, $cname);
    };
    ($v:ident, $c:ty, $cname:expr, $fl:ident, $w:literal, $be:literal, $fam:literal, $corefam:literal, noalias) => {
        $crate::reg_stream!($v, $crate::obj::StreamKind::Ctr($w, $be), $fam, $corefam,
            $crate::deps::ctr::CtrCore<$c, $crate::deps::ctr::flavors::$fl>,
            $crate::deps::cipher::StreamCipherCoreWrapper<$crate::deps::ctr::CtrCore<$c, $crate::deps::ctr::flavors::$fl>>, TagCtr<$w, $be>, $cname);
    };
}
#[macro_export]
macro_rules! reg_ctr_flavors {
    ($v:ident, $c:ty, $cname:expr, none) => {};
    ($v:ident, $c:ty, $cname:expr, c32) => {
        $crate::reg_ctr_flavors!(@l32 $v, $c, $cname, noalias);
    };
    ($v:ident, $c:ty, $cname:expr, c64) => {
        $crate::reg_ctr_flavors!(@l32 $v, $c, $cname, noalias);
        $crate::reg_ctr_flavors!(@l64 $v, $c, $cname, noalias);
    };
    ($v:ident, $c:ty, $cname:expr, c128) => {
        $crate::reg_ctr_flavors!(@l32 $v, $c, $cname, alias);
        $crate::reg_ctr_flavors!(@l64 $v, $c, $cname, alias);
        $crate::reg_ctr_one!($v, $c, $cname, Ctr128BE, 128, true, "ctr::Ctr128BE", "CtrCore128BE", alias);
        $crate::reg_ctr_one!($v, $c, $cname, Ctr128LE, 128, false, "ctr::Ctr128LE", "CtrCore128LE", alias);
    };
    (@l32 $v:ident, $c:ty, $cname:expr, $al:ident) => {
        $crate::reg_ctr_one!($v, $c, $cname, Ctr32BE, 32, true, "ctr::Ctr32BE", "CtrCore32BE", $al);
        $crate::reg_ctr_one!($v, $c, $cname, Ctr32LE, 32, false, "ctr::Ctr32LE", "CtrCore32LE", $al);
    };
    (@l64 $v:ident, $c:ty, $cname:expr, $al:ident) => {
        $crate::reg_ctr_one!($v, $c, $cname, Ctr64BE, 64, true, "ctr::Ctr64BE", "CtrCore64BE", $al);
        $crate::reg_ctr_one!($v, $c, $cname, Ctr64LE, 64, false, "ctr::Ctr64LE", "CtrCore64LE", $al);
    };
}
#[macro_export]
macro_rules! reg_belt_flavor {
    ($v:ident, $c:ty, $cname:expr, nobelt) => {};
    ($v:ident, $c:ty, $cname:expr, belt) => {
        $crate::reg_stream!($v, $crate::obj::StreamKind::Belt, "belt_ctr::BeltCtr", "belt_ctr::BeltCtrCore",
            $crate::deps::belt_ctr::BeltCtrCore<$c>, $crate::deps::belt_ctr::BeltCtr<$c>, TagBelt, $cname);
    };
}

/// Everything that needs only `E` (also instantiated for the enc+dec ciphers).
#[macro_export]
macro_rules! reg_enc_side {
    ($bm:ident, $buf:ident, $st:ident, $c:ty, $cname:expr, $ctr:ident, $belt:ident) => {
        $crate::reg_bm_enc!($bm, $crate::obj::Mode::Cbc, "cbc::Encryptor", $crate::deps::cbc::Encryptor<$c>, $cname);
        $crate::reg_bm_enc!($bm, $crate::obj::Mode::Pcbc, "pcbc::Encryptor", $crate::deps::pcbc::Encryptor<$c>, $cname);
        $crate::reg_bm_enc!($bm, $crate::obj::Mode::Ige, "ige::Encryptor", $crate::deps::ige::Encryptor<$c>, $cname);
        $crate::reg_bm_enc!($bm, $crate::obj::Mode::Cfb, "cfb_mode::Encryptor", $crate::deps::cfb_mode::Encryptor<$c>, $cname);
        $crate::reg_bm_dec!($bm, $crate::obj::Mode::Cfb, "cfb_mode::Decryptor", $crate::deps::cfb_mode::Decryptor<$c>, $cname);
        $crate::reg_bm_enc!($bm, $crate::obj::Mode::Cfb8, "cfb8::Encryptor", $crate::deps::cfb8::Encryptor<$c>, $cname);
        $crate::reg_bm_dec!($bm, $crate::obj::Mode::Cfb8, "cfb8::Decryptor", $crate::deps::cfb8::Decryptor<$c>, $cname);
        $crate::reg_bm_enc!($bm, $crate::obj::Mode::Ofb, "ofb::OfbCore", $crate::deps::ofb::OfbCore<$c>, $cname);
        $crate::reg_bm_dec!($bm, $crate::obj::Mode::Ofb, "ofb::OfbCore", $crate::deps::ofb::OfbCore<$c>, $cname);
        {
            $crate::impl_buf_cfb!($c);
            $buf.push(Box::new(BufEF::<$c>(
                format!("cfb_mode::BufEncryptor<{}>", $cname),
                core::marker::PhantomData,
            )) as Box<dyn $crate::obj::BufCfbFactory>);
            $buf.push(Box::new(BufDF::<$c>(
                format!("cfb_mode::BufDecryptor<{}>", $cname),
                core::marker::PhantomData,
            )) as Box<dyn $crate::obj::BufCfbFactory>);
        }
        $crate::reg_stream!($st, $crate::obj::StreamKind::Ofb, "ofb::Ofb", "ofb::OfbCore", $crate::deps::ofb::OfbCore<$c>, $crate::deps::ofb::Ofb<$c>, TagOfb, $cname);
        $crate::reg_ctr_flavors!($st, $c, $cname, $ctr);
        $crate::reg_belt_flavor!($st, $c, $cname, $belt);
    };
}

#[macro_export]
macro_rules! reg_dec_side {
    ($bm:ident, $cts:ident, $c:ty, $cname:expr) => {
        $crate::reg_bm_dec!($bm, $crate::obj::Mode::Cbc, "cbc::Decryptor", $crate::deps::cbc::Decryptor<$c>, $cname);
        $crate::reg_bm_dec!($bm, $crate::obj::Mode::Pcbc, "pcbc::Decryptor", $crate::deps::pcbc::Decryptor<$c>, $cname);
        $crate::reg_bm_dec!($bm, $crate::obj::Mode::Ige, "ige::Decryptor", $crate::deps::ige::Decryptor<$c>, $cname);
        $crate::reg_cts!($cts, cbc, $crate::obj::CtsVariant::CbcCs1, "cts::CbcCs1", $crate::deps::cts::CbcCs1<$c>, $cname);
        $crate::reg_cts!($cts, cbc, $crate::obj::CtsVariant::CbcCs2, "cts::CbcCs2", $crate::deps::cts::CbcCs2<$c>, $cname);
        $crate::reg_cts!($cts, cbc, $crate::obj::CtsVariant::CbcCs3, "cts::CbcCs3", $crate::deps::cts::CbcCs3<$c>, $cname);
        $crate::reg_cts!($cts, ecb, $crate::obj::CtsVariant::EcbCs1, "cts::EcbCs1", $crate::deps::cts::EcbCs1<$c>, $cname);
        $crate::reg_cts!($cts, ecb, $crate::obj::CtsVariant::EcbCs2, "cts::EcbCs2", $crate::deps::cts::EcbCs2<$c>, $cname);
        $crate::reg_cts!($cts, ecb, $crate::obj::CtsVariant::EcbCs3, "cts::EcbCs3", $crate::deps::cts::EcbCs3<$c>, $cname);
    };
}

/// A toy configuration with both directions: `toy_suite!(fn_name, U16, U3, "Toy16x3", c128, belt)`.
#[macro_export]
macro_rules! toy_suite {
    ($fname:ident, $bs:ident, $par:ident, $name:literal, $ctr:ident, $belt:ident) => {
        pub fn $fname() -> $crate::obj::Suite {
            use $crate::obj::*;
            type C = $crate::toy::Toy<$crate::deps::cipher::consts::$bs, $crate::deps::cipher::consts::$par>;
            let bs = <$crate::deps::cipher::consts::$bs as $crate::deps::cipher::typenum::Unsigned>::USIZE;
            let par = <$crate::deps::cipher::consts::$par as $crate::deps::cipher::typenum::Unsigned>::USIZE;
            let mut bm: Vec<Box<dyn BlockModeFactory>> = Vec::new();
            let mut buf: Vec<Box<dyn BufCfbFactory>> = Vec::new();
            let mut st: Vec<Box<dyn StreamFactory>> = Vec::new();
            let mut cts: Vec<Box<dyn CtsFactory>> = Vec::new();
            $crate::reg_enc_side!(bm, buf, st, C, $name, $ctr, $belt);
            $crate::reg_dec_side!(bm, cts, C, $name);
            Suite {
                info: CipherInfo {
                    name: $name,
                    bs,
                    par,
                    key_len: 16,
                    has_dec: true,
                    has_enc: true,
                    is_toy: true,
                },
                keyed: Box::new(move |key: &[u8]| {
                    Box::new($crate::regmac::ToyModel {
                        key: $crate::toy::ToyKey::new(key),
                        bs,
                    }) as Box<dyn CipherObj>
                }),
                block_modes: bm,
                buf_cfb: buf,
                streams: st,
                cts,
            }
        }
    };
}

/// A toy configuration with the encryption direction only.
#[macro_export]
macro_rules! toyenc_suite {
    ($fname:ident, $bs:ident, $par:ident, $name:literal, $ctr:ident, $belt:ident) => {
        pub fn $fname() -> $crate::obj::Suite {
            use $crate::obj::*;
            type C = $crate::toy::ToyEnc<$crate::deps::cipher::consts::$bs, $crate::deps::cipher::consts::$par>;
            let bs = <$crate::deps::cipher::consts::$bs as $crate::deps::cipher::typenum::Unsigned>::USIZE;
            let par = <$crate::deps::cipher::consts::$par as $crate::deps::cipher::typenum::Unsigned>::USIZE;
            let mut bm: Vec<Box<dyn BlockModeFactory>> = Vec::new();
            let mut buf: Vec<Box<dyn BufCfbFactory>> = Vec::new();
            let mut st: Vec<Box<dyn StreamFactory>> = Vec::new();
            $crate::reg_enc_side!(bm, buf, st, C, $name, $ctr, $belt);
            Suite {
                info: CipherInfo {
                    name: $name,
                    bs,
                    par,
                    key_len: 16,
                    has_dec: false,
                    has_enc: true,
                    is_toy: true,
                },
                keyed: Box::new(move |key: &[u8]| {
                    Box::new($crate::regmac::ToyModel {
                        key: $crate::toy::ToyKey::new(key),
                        bs,
                    }) as Box<dyn CipherObj>
                }),
                block_modes: bm,
                buf_cfb: buf,
                streams: st,
                cts: Vec::new(),
            }
        }
    };
}

/// A real cipher with both directions.
#[macro_export]
macro_rules! real_suite {
    ($fname:ident, $c:ty, $name:literal, $ctr:ident, $belt:ident) => {
        pub fn $fname() -> $crate::obj::Suite {
            use $crate::deps::cipher::KeyInit;
            use $crate::obj::*;
            type C = $c;
            let bs = <C as $crate::deps::cipher::BlockSizeUser>::block_size();
            let key_len = <C as $crate::deps::cipher::KeySizeUser>::key_size();
            let probe = <C as KeyInit>::new_from_slice(&vec![1u8; key_len]).expect("harness: key length");
            let par = $crate::regmac::cipher_par_enc(&probe);
            let mut bm: Vec<Box<dyn BlockModeFactory>> = Vec::new();
            let mut buf: Vec<Box<dyn BufCfbFactory>> = Vec::new();
            let mut st: Vec<Box<dyn StreamFactory>> = Vec::new();
            let mut cts: Vec<Box<dyn CtsFactory>> = Vec::new();
            $crate::reg_enc_side!(bm, buf, st, C, $name, $ctr, $belt);
            $crate::reg_dec_side!(bm, cts, C, $name);
            Suite {
                info: CipherInfo {
                    name: $name,
                    bs,
                    par,
                    key_len,
                    has_dec: true,
                    has_enc: true,
                    is_toy: false,
                },
                keyed: Box::new(move |key: &[u8]| {
                    Box::new($crate::regmac::Keyed(
                        <C as KeyInit>::new_from_slice(key).expect("harness: key length"),
                    )) as Box<dyn CipherObj>
                }),
                block_modes: bm,
                buf_cfb: buf,
                streams: st,
                cts,
            }
        }
    };
}
