//! The tape: a short byte string that decodes, totally and monotonically, into one case.
//!
//! Reading past the end yields zeros, so every byte string is a valid case and the all-zero
//! tape is the simplest case of every property.  Every decoded value is folded into a
//! running hash so that two tapes that decode to the same case have the same
//! `canon_hash` (used to count *distinct* cases).

#[derive(Clone)]
pub struct Tape<'a> {
    bytes: &'a [u8],
    pos: usize,
    hash: u64,
}

#[inline]
pub fn splitmix(state: &mut u64) -> u64 {
    *state = state.wrapping_add(0x9E37_79B9_7F4A_7C15);
    let mut z = *state;
    z = (z ^ (z >> 30)).wrapping_mul(0xBF58_476D_1CE4_E5B9);
    z = (z ^ (z >> 27)).wrapping_mul(0x94D0_49BB_1331_11EB);
    z ^ (z >> 31)
}

#[inline]
pub fn fnv_mix(h: u64, v: u64) -> u64 {
    let mut h = h ^ v;
    h = h.wrapping_mul(0x0000_0100_0000_01B3);
    h ^ (h >> 29)
}

impl<'a> Tape<'a> {
    pub fn new(bytes: &'a [u8]) -> Self {
        Tape {
            bytes,
            pos: 0,
            hash: 0xCBF2_9CE4_8422_2325,
        }
    }
    pub fn consumed(&self) -> usize {
        self.pos
    }
    pub fn canon_hash(&self) -> u64 {
        self.hash
    }
    /// Fold an already-decoded value into the canonical hash.
    #[inline]
    pub fn note(&mut self, v: u64) {
        self.hash = fnv_mix(self.hash, v);
    }
    #[inline]
    fn raw(&mut self) -> u8 {
        let b = self.bytes.get(self.pos).copied().unwrap_or(0);
        self.pos += 1;
        b
    }
    /// A raw byte (hashed as is).
    #[inline]
    pub fn byte(&mut self) -> u8 {
        let b = self.raw();
        self.note(b as u64);
        b
    }
    /// Skip `n` bytes without hashing (padding of fixed-size records).
    pub fn skip(&mut self, n: usize) {
        self.pos += n;
    }
    /// An index in `0..n` (n ≥ 1), monotone in the byte: `b * n >> 8`.
    #[inline]
    pub fn idx(&mut self, n: usize) -> usize {
        debug_assert!(n >= 1);
        let b = self.raw() as usize;
        let v = if n >= 256 {
            // two bytes for larger ranges
            let b2 = self.raw() as usize;
            ((b << 8 | b2) * n) >> 16
        } else {
            (b * n) >> 8
        };
        self.note(v as u64);
        v
    }
    /// Pick from an ordered table ("simplest first").
    #[inline]
    pub fn pick<T: Copy>(&mut self, table: &[T]) -> T {
        table[self.idx(table.len())]
    }
    /// true with probability ≈ num/256; `0` → false.
    #[inline]
    pub fn chance(&mut self, num: u32) -> bool {
        let b = self.raw() as u32;
        let v = b >= 256 - num.min(256);
        self.note(v as u64);
        v
    }
    /// 32-bit seed, little-endian (0 stays 0).
    pub fn u32(&mut self) -> u32 {
        let mut v = 0u32;
        for i in 0..4 {
            v |= (self.raw() as u32) << (8 * i);
        }
        self.note(v as u64);
        v
    }
    pub fn u16(&mut self) -> u16 {
        let v = (self.raw() as u16) | ((self.raw() as u16) << 8);
        self.note(v as u64);
        v
    }
    /// Small signed offset in `-k..=k`, 0 first.
    pub fn offset(&mut self, k: i64) -> i64 {
        let n = (2 * k + 1) as usize;
        let i = self.idx(n) as i64;
        // 0, +1, -1, +2, -2 ...
        if i == 0 {
            0
        } else if i % 2 == 1 {
            (i + 1) / 2
        } else {
            -(i / 2)
        }
    }
}

/// Data patterns for bulk bytes: `0` zeros, `1` 00 01 02 …, `2` FF…, otherwise pseudo-random
/// from the seed.
pub fn fill(pattern: u8, seed: u32, out: &mut [u8]) {
    match pattern {
        0 => out.iter_mut().for_each(|b| *b = 0),
        1 => out.iter_mut().enumerate().for_each(|(i, b)| *b = i as u8),
        2 => out.iter_mut().for_each(|b| *b = 0xFF),
        _ => {
            let mut st = (seed as u64) << 8 | pattern as u64;
            let mut i = 0;
            while i < out.len() {
                let v = splitmix(&mut st).to_le_bytes();
                for b in v {
                    if i < out.len() {
                        out[i] = b;
                        i += 1;
                    }
                }
            }
        }
    }
}

pub fn bytes(pattern: u8, seed: u32, len: usize) -> Vec<u8> {
    let mut v = vec![0u8; len];
    fill(pattern, seed, &mut v);
    v
}

/// Read a (pattern, seed) pair from the tape: 5 bytes. Pattern byte is mapped so that about
/// 70 % of cases are pseudo-random.
pub fn data_spec(t: &mut Tape<'_>) -> (u8, u32) {
    let p = t.byte();
    let seed = t.u32();
    let pat = match p {
        0..=15 => 0,
        16..=39 => 1,
        40..=55 => 2,
        _ => 3,
    };
    (pat, seed)
}

pub fn gen_bytes(t: &mut Tape<'_>, len: usize) -> Vec<u8> {
    let (p, s) = data_spec(t);
    bytes(p, s, len)
}

pub fn hex(b: &[u8]) -> String {
    let mut s = String::with_capacity(b.len() * 2);
    for x in b {
        s.push_str(&format!("{:02x}", x));
    }
    s
}

pub fn hex_short(b: &[u8]) -> String {
    if b.len() <= 40 {
        hex(b)
    } else {
        format!("{}..{}({}B)", hex(&b[..16]), hex(&b[b.len() - 8..]), b.len())
    }
}

pub fn unhex(s: &str) -> Option<Vec<u8>> {
    let s = s.trim();
    if s.len() % 2 != 0 {
        return None;
    }
    (0..s.len() / 2)
        .map(|i| u8::from_str_radix(&s[2 * i..2 * i + 2], 16).ok())
        .collect()
}

pub fn hash_bytes(b: &[u8]) -> u64 {
    let mut h = 0xCBF2_9CE4_8422_2325u64;
    for x in b {
        h = fnv_mix(h, *x as u64);
    }
    h
}
