//! Harness-owned block ciphers.
//!
//! `Toy<BS, PAR>` is a keyed permutation of `BS`-byte blocks whose backend advertises
//! `ParBlocksSize = PAR`.  The block function does not depend on `PAR`.  `ToyEnc` exposes
//! only the encryption direction.  Every call into a backend is recorded in a
//! thread-local log (when enabled) so checks can see exactly which blocks were fed to
//! `E` / `D` and through which backend method.

use cipher::{
    AlgorithmName, Block, BlockCipherDecBackend, BlockCipherDecClosure, BlockCipherDecrypt,
    BlockCipherEncBackend, BlockCipherEncClosure, BlockCipherEncrypt, BlockSizeUser, InOut, Key,
    KeyInit, KeySizeUser, ParBlocks, ParBlocksSizeUser,
    array::ArraySize,
    consts::U16,
    crypto_common::BlockSizes,
};
use core::fmt;
use core::marker::PhantomData;
use std::cell::RefCell;

pub const ROUNDS: usize = 4;
pub const MAXBS: usize = 255;

/// Round keys for the toy permutation (independent of block size: the first `bs` bytes of
/// every round are used).
#[derive(Clone)]
pub struct ToyKey {
    rk: [[u8; MAXBS]; ROUNDS],
}

#[inline]
fn splitmix(state: &mut u64) -> u64 {
    *state = state.wrapping_add(0x9E37_79B9_7F4A_7C15);
    let mut z = *state;
    z = (z ^ (z >> 30)).wrapping_mul(0xBF58_476D_1CE4_E5B9);
    z = (z ^ (z >> 27)).wrapping_mul(0x94D0_49BB_1331_11EB);
    z ^ (z >> 31)
}

impl ToyKey {
    pub fn new(key: &[u8]) -> Self {
        // absorb the key bytes into a 64-bit state (order-sensitive), then expand
        let mut st: u64 = 0x6A09_E667_F3BC_C908;
        for (i, b) in key.iter().enumerate() {
            st = st.rotate_left(9) ^ ((*b as u64) << ((i % 8) * 8));
            st = st.wrapping_mul(0x0000_0100_0000_01B3).wrapping_add(i as u64 + 1);
        }
        let mut rk = [[0u8; MAXBS]; ROUNDS];
        for r in rk.iter_mut() {
            let mut i = 0;
            while i < MAXBS {
                let v = splitmix(&mut st).to_le_bytes();
                for b in v {
                    if i < MAXBS {
                        r[i] = b;
                        i += 1;
                    }
                }
            }
        }
        ToyKey { rk }
    }
}

#[inline]
fn sbox(b: u8) -> u8 {
    b.wrapping_mul(167).wrapping_add(91).rotate_left(3)
}
#[inline]
fn sbox_inv(b: u8) -> u8 {
    // 167 * 23 = 3841 = 15*256 + 1
    b.rotate_right(3).wrapping_sub(91).wrapping_mul(23)
}

/// The toy permutation, forward direction, on a slice of any length 1..=255.
pub fn toy_encrypt(k: &ToyKey, x: &mut [u8]) {
    let n = x.len();
    debug_assert!(n >= 1 && n <= MAXBS);
    for r in 0..ROUNDS {
        for i in 0..n {
            x[i] = sbox(x[i] ^ k.rk[r][i]);
        }
        for i in 1..n {
            x[i] = x[i].wrapping_add(x[i - 1]);
        }
        if n > 1 {
            x.rotate_left(1);
            for i in (0..n - 1).rev() {
                x[i] ^= x[i + 1].rotate_left(1);
            }
        }
    }
}

/// Exact inverse of [`toy_encrypt`].
pub fn toy_decrypt(k: &ToyKey, x: &mut [u8]) {
    let n = x.len();
    debug_assert!(n >= 1 && n <= MAXBS);
    for r in (0..ROUNDS).rev() {
        if n > 1 {
            for i in 0..n - 1 {
                x[i] ^= x[i + 1].rotate_left(1);
            }
            x.rotate_right(1);
        }
        for i in (1..n).rev() {
            x[i] = x[i].wrapping_sub(x[i - 1]);
        }
        for i in 0..n {
            x[i] = sbox_inv(x[i]) ^ k.rk[r][i];
        }
    }
}

// ---------------------------------------------------------------------------------------
// call log

#[derive(Clone, Copy, Debug, PartialEq, Eq)]
pub enum Dir {
    E,
    D,
}

#[derive(Clone, Copy, Debug, PartialEq, Eq)]
pub enum Via {
    Block,
    Par,
}

#[derive(Clone, Debug, PartialEq, Eq)]
pub struct Ev {
    pub dir: Dir,
    pub via: Via,
    pub input: Vec<u8>,
}

thread_local! {
    static LOG: RefCell<Option<Vec<Ev>>> = const { RefCell::new(None) };
}

/// Start recording cipher calls on this thread (clears any previous log).
pub fn log_start() {
    LOG.with(|l| *l.borrow_mut() = Some(Vec::new()));
}
/// Stop recording and return what was recorded.
pub fn log_take() -> Vec<Ev> {
    LOG.with(|l| l.borrow_mut().take().unwrap_or_default())
}
/// Number of events so far (0 if not recording).
pub fn log_len() -> usize {
    LOG.with(|l| l.borrow().as_ref().map(|v| v.len()).unwrap_or(0))
}
#[inline]
fn log_ev(dir: Dir, via: Via, input: &[u8]) {
    LOG.with(|l| {
        if let Some(v) = l.borrow_mut().as_mut() {
            v.push(Ev {
                dir,
                via,
                input: input.to_vec(),
            });
        }
    });
}

// ---------------------------------------------------------------------------------------
// Toy<BS, PAR>

pub struct Toy<BS, PAR> {
    key: ToyKey,
    _p: PhantomData<(BS, PAR)>,
}

impl<BS, PAR> Clone for Toy<BS, PAR> {
    fn clone(&self) -> Self {
        Toy {
            key: self.key.clone(),
            _p: PhantomData,
        }
    }
}

impl<BS: BlockSizes, PAR: ArraySize> KeySizeUser for Toy<BS, PAR> {
    type KeySize = U16;
}
impl<BS: BlockSizes, PAR: ArraySize> KeyInit for Toy<BS, PAR> {
    fn new(key: &Key<Self>) -> Self {
        Toy {
            key: ToyKey::new(key),
            _p: PhantomData,
        }
    }
}
impl<BS: BlockSizes, PAR: ArraySize> BlockSizeUser for Toy<BS, PAR> {
    type BlockSize = BS;
}
impl<BS: BlockSizes, PAR: ArraySize> AlgorithmName for Toy<BS, PAR> {
    fn write_alg_name(f: &mut fmt::Formatter<'_>) -> fmt::Result {
        write!(f, "Toy{}x{}", BS::USIZE, PAR::USIZE)
    }
}
impl<BS: BlockSizes, PAR: ArraySize> fmt::Debug for Toy<BS, PAR> {
    fn fmt(&self, f: &mut fmt::Formatter<'_>) -> fmt::Result {
        write!(f, "Toy{}x{} {{ ... }}", BS::USIZE, PAR::USIZE)
    }
}

pub struct ToyBackend<'a, BS, PAR> {
    key: &'a ToyKey,
    _p: PhantomData<(BS, PAR)>,
}
impl<BS: BlockSizes, PAR: ArraySize> BlockSizeUser for ToyBackend<'_, BS, PAR> {
    type BlockSize = BS;
}
impl<BS: BlockSizes, PAR: ArraySize> ParBlocksSizeUser for ToyBackend<'_, BS, PAR> {
    type ParBlocksSize = PAR;
}
impl<BS: BlockSizes, PAR: ArraySize> BlockCipherEncBackend for ToyBackend<'_, BS, PAR> {
    #[inline]
    fn encrypt_block(&self, mut block: InOut<'_, '_, Block<Self>>) {
        let mut t = block.clone_in();
        log_ev(Dir::E, Via::Block, &t);
        toy_encrypt(self.key, &mut t);
        *block.get_out() = t;
    }
    #[inline]
    fn encrypt_par_blocks(&self, mut blocks: InOut<'_, '_, ParBlocks<Self>>) {
        // Read every input before writing any output (as a SIMD backend does).
        let mut t = blocks.clone_in();
        for b in t.iter_mut() {
            log_ev(Dir::E, Via::Par, b);
            toy_encrypt(self.key, b);
        }
        *blocks.get_out() = t;
    }
}
impl<BS: BlockSizes, PAR: ArraySize> BlockCipherDecBackend for ToyBackend<'_, BS, PAR> {
    #[inline]
    fn decrypt_block(&self, mut block: InOut<'_, '_, Block<Self>>) {
        let mut t = block.clone_in();
        log_ev(Dir::D, Via::Block, &t);
        toy_decrypt(self.key, &mut t);
        *block.get_out() = t;
    }
    #[inline]
    fn decrypt_par_blocks(&self, mut blocks: InOut<'_, '_, ParBlocks<Self>>) {
        let mut t = blocks.clone_in();
        for b in t.iter_mut() {
            log_ev(Dir::D, Via::Par, b);
            toy_decrypt(self.key, b);
        }
        *blocks.get_out() = t;
    }
}

impl<BS: BlockSizes, PAR: ArraySize> BlockCipherEncrypt for Toy<BS, PAR> {
    fn encrypt_with_backend(&self, f: impl BlockCipherEncClosure<BlockSize = BS>) {
        f.call(&ToyBackend::<BS, PAR> {
            key: &self.key,
            _p: PhantomData,
        })
    }
}
impl<BS: BlockSizes, PAR: ArraySize> BlockCipherDecrypt for Toy<BS, PAR> {
    fn decrypt_with_backend(&self, f: impl BlockCipherDecClosure<BlockSize = BS>) {
        f.call(&ToyBackend::<BS, PAR> {
            key: &self.key,
            _p: PhantomData,
        })
    }
}

// ---------------------------------------------------------------------------------------
// ToyEnc<BS, PAR>: the same permutation, encryption direction only

pub struct ToyEnc<BS, PAR> {
    key: ToyKey,
    _p: PhantomData<(BS, PAR)>,
}
impl<BS, PAR> Clone for ToyEnc<BS, PAR> {
    fn clone(&self) -> Self {
        ToyEnc {
            key: self.key.clone(),
            _p: PhantomData,
        }
    }
}
impl<BS: BlockSizes, PAR: ArraySize> KeySizeUser for ToyEnc<BS, PAR> {
    type KeySize = U16;
}
impl<BS: BlockSizes, PAR: ArraySize> KeyInit for ToyEnc<BS, PAR> {
    fn new(key: &Key<Self>) -> Self {
        ToyEnc {
            key: ToyKey::new(key),
            _p: PhantomData,
        }
    }
}
impl<BS: BlockSizes, PAR: ArraySize> BlockSizeUser for ToyEnc<BS, PAR> {
    type BlockSize = BS;
}
impl<BS: BlockSizes, PAR: ArraySize> AlgorithmName for ToyEnc<BS, PAR> {
    fn write_alg_name(f: &mut fmt::Formatter<'_>) -> fmt::Result {
        write!(f, "ToyEnc{}x{}", BS::USIZE, PAR::USIZE)
    }
}
impl<BS: BlockSizes, PAR: ArraySize> fmt::Debug for ToyEnc<BS, PAR> {
    fn fmt(&self, f: &mut fmt::Formatter<'_>) -> fmt::Result {
        write!(f, "ToyEnc{}x{} {{ ... }}", BS::USIZE, PAR::USIZE)
    }
}
impl<BS: BlockSizes, PAR: ArraySize> BlockCipherEncrypt for ToyEnc<BS, PAR> {
    fn encrypt_with_backend(&self, f: impl BlockCipherEncClosure<BlockSize = BS>) {
        f.call(&ToyBackend::<BS, PAR> {
            key: &self.key,
            _p: PhantomData,
        })
    }
}

/// Harness self-check: `D(E(x)) == x` and the S-box is a bijection.
pub fn self_check() -> Result<(), String> {
    let mut seen = [false; 256];
    for b in 0..=255u8 {
        let s = sbox(b);
        if seen[s as usize] {
            return Err("toy sbox is not a bijection".into());
        }
        seen[s as usize] = true;
        if sbox_inv(s) != b {
            return Err("toy sbox inverse wrong".into());
        }
    }
    let mut st = 12345u64;
    for n in [1usize, 2, 3, 5, 8, 16, 33, 64, 127, 255] {
        for t in 0..8u8 {
            let key: Vec<u8> = (0..16).map(|i| (splitmix(&mut st) as u8) ^ i ^ t).collect();
            let k = ToyKey::new(&key);
            let x: Vec<u8> = (0..n).map(|_| splitmix(&mut st) as u8).collect();
            let mut y = x.clone();
            toy_encrypt(&k, &mut y);
            if n > 1 && y == x {
                return Err(format!("toy cipher is the identity at n={n}"));
            }
            let mut z = y.clone();
            toy_decrypt(&k, &mut z);
            if z != x {
                return Err(format!("toy cipher D(E(x)) != x at n={n}"));
            }
        }
    }
    Ok(())
}
