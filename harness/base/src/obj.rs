//! Object-safe views of everything the repository exports, so that check logic is ordinary
//! non-generic code compiled once.

use std::fmt;

// ---------------------------------------------------------------------------------------
// ciphers

#[derive(Clone, Debug)]
pub struct CipherInfo {
    /// e.g. "Toy16x3", "Aes128"
    pub name: &'static str,
    pub bs: usize,
    /// parallel width advertised by the encryption backend on this machine
    pub par: usize,
    pub key_len: usize,
    pub has_dec: bool,
    pub has_enc: bool,
    pub is_toy: bool,
}

/// A keyed block cipher seen through its single-block interface (trusted base of the
/// reference models). For the toy ciphers this calls the permutation directly and does not
/// touch the call log.
pub trait CipherObj {
    fn bs(&self) -> usize;
    fn enc(&self, block: &mut [u8]);
    fn dec(&self, block: &mut [u8]);
}

// ---------------------------------------------------------------------------------------
// identifiers

#[derive(Clone, Copy, Debug, PartialEq, Eq, Hash)]
pub enum Mode {
    Cbc,
    Pcbc,
    Ige,
    Cfb,
    Cfb8,
    /// `OfbCore` driven through `BlockModeEncrypt` / `BlockModeDecrypt`
    Ofb,
}

impl Mode {
    pub const ALL: [Mode; 6] = [Mode::Cbc, Mode::Pcbc, Mode::Ige, Mode::Cfb, Mode::Cfb8, Mode::Ofb];
    pub fn needs_dec(self, dir: Direction) -> bool {
        matches!(self, Mode::Cbc | Mode::Pcbc | Mode::Ige) && dir == Direction::Dec
    }
}

#[derive(Clone, Copy, Debug, PartialEq, Eq, Hash)]
pub enum Direction {
    Enc,
    Dec,
}

/// How an instance is constructed.
#[derive(Clone, Copy, Debug, PartialEq, Eq, Hash)]
pub enum Ctor {
    /// `KeyIvInit::new(key, iv)` (or `KeyInit::new` for the ECB-CS types)
    New,
    /// `KeyIvInit::new_from_slices` (or `KeyInit::new_from_slice`)
    NewFromSlices,
    /// `InnerIvInit::inner_iv_init(C::new(key), iv)` (`InnerInit::inner_init` for ECB-CS;
    /// wrappers: `from_core(Core::inner_iv_init(..))`)
    Inner,
    /// `InnerIvInit::inner_iv_slice_init(C::new(key), iv)` (wrappers: `from_core(..)`)
    InnerSlice,
}

impl Ctor {
    pub const ALL: [Ctor; 4] = [Ctor::New, Ctor::NewFromSlices, Ctor::Inner, Ctor::InnerSlice];
}

/// Error returned by the code under test (its concrete type is irrelevant to the checks).
#[derive(Clone, Copy, Debug, PartialEq, Eq)]
pub struct ApiErr;

/// One way of pushing whole blocks through a block mode.
#[derive(Clone, Copy, Debug, PartialEq, Eq, Hash)]
pub enum CallKind {
    /// loop of `*_block(&mut b)` in place
    Block,
    /// `*_blocks(&mut [b])` in place
    Blocks,
    /// loop of `*_block_b2b(in, out)`
    BlockB2b,
    /// `*_blocks_b2b(in, out)`
    BlocksB2b,
    /// loop of `*_block_inout((in, out).into())`
    BlockInout,
    /// `*_blocks_inout(InOutBuf::new(in, out))`
    BlocksInout,
    /// `*_blocks_inout(InOutBuf::from(&mut buf))` in place
    BlocksInoutInplace,
    /// `*_with_backend(closure)` where the closure runs a generated legal mixture of
    /// `block` / `par_blocks` / `tail_blocks` backend calls over `(in, out)`
    Backend,
    /// the same closure over one buffer (in place)
    BackendInplace,
}

impl CallKind {
    pub const ALL: [CallKind; 9] = [
        CallKind::Block,
        CallKind::Blocks,
        CallKind::BlockB2b,
        CallKind::BlocksB2b,
        CallKind::BlockInout,
        CallKind::BlocksInout,
        CallKind::BlocksInoutInplace,
        CallKind::Backend,
        CallKind::BackendInplace,
    ];
    pub fn in_place(self) -> bool {
        matches!(self, CallKind::Block | CallKind::Blocks | CallKind::BlocksInoutInplace | CallKind::BackendInplace)
    }
}

/// Decision source for backend-level schedules: bytes taken from the tape, cycled.
#[derive(Clone, Debug)]
pub struct Sched {
    pub bytes: [u8; 6],
    pub idx: usize,
    /// what the closure actually did: 'b' block, 'p' par group, 't' tail(len)
    pub trace: String,
}

impl Sched {
    pub fn new(bytes: [u8; 6]) -> Self {
        Sched {
            bytes,
            idx: 0,
            trace: String::new(),
        }
    }
    #[inline]
    pub fn next(&mut self) -> u8 {
        let b = self.bytes[self.idx % self.bytes.len()];
        self.idx += 1;
        b
    }
}

#[derive(Clone, Copy, Debug, PartialEq, Eq, Hash)]
pub enum Pad {
    Pkcs7,
    Iso7816,
    AnsiX923,
    NoPadding,
    ZeroPadding,
}

impl Pad {
    pub const ALL: [Pad; 5] = [Pad::Pkcs7, Pad::Iso7816, Pad::AnsiX923, Pad::NoPadding, Pad::ZeroPadding];
}

#[derive(Clone, Copy, Debug, PartialEq, Eq, Hash)]
pub enum Form {
    InPlace,
    B2b,
    Inout,
    /// `*_padded_vec` (padded one-shots only)
    Vec,
}

/// One-shot (consuming) operations on block modes.
#[derive(Clone, Copy, Debug, PartialEq, Eq, Hash)]
pub enum OneShot {
    Padded(Pad, Form),
    /// `AsyncStreamCipher::{encrypt,decrypt}{,_b2b,_inout}` (CFB, CFB-8 only)
    Async(Form),
}

/// Result of a one-shot: `Ok(n)` = `n` bytes of output at the start of `out`.
pub type OneShotResult = Result<usize, ApiErr>;

pub trait BlockModeObj {
    fn as_any(&self) -> &dyn core::any::Any;
    /// `Clone::clone_from(self, src)` when `src` is the same concrete type and it is `Clone`
    fn assign_from(&mut self, src: &dyn core::any::Any) -> Option<()>;
    /// Push `inp` (whole mode blocks) through the mode.  `out` holds whatever the caller
    /// pre-filled it with; in-place kinds first copy `inp` over it.  For b2b kinds the two
    /// lengths may differ (the API's verdict is returned).
    fn process(&mut self, kind: CallKind, inp: &[u8], out: &mut [u8], sched: &mut Sched) -> Result<(), ApiErr>;
    fn iv_state(&self) -> Option<Vec<u8>>;
    fn clone_box(&self) -> Option<Box<dyn BlockModeObj>>;
    fn debug(&self) -> Option<String>;
    /// `None` when the type does not offer the operation.
    /// `out` is the caller's output buffer (any length, pre-filled); for in-place forms it is
    /// the working buffer: the message is copied to its start by the adapter.
    fn oneshot(self: Box<Self>, op: OneShot, inp: &[u8], out: &mut Vec<u8>) -> Option<OneShotResult>;
    /// Move the object into a heap slot pre-filled with 0xAA, look for `secrets` in its
    /// storage, drop it in place, look again.
    fn drop_scan(self: Box<Self>, secrets: &[Vec<u8>]) -> ScanReport;
}

pub trait BlockModeFactory: Send + Sync {
    fn mode(&self) -> Mode;
    fn dir(&self) -> Direction;
    fn type_name(&self) -> String;
    /// mode block size in bytes (1 for CFB-8)
    fn unit(&self) -> usize;
    fn iv_len(&self) -> usize;
    fn key_len(&self) -> usize;
    /// For `New` / `Inner` the lengths must be right (harness obligation).
    fn make(&self, how: Ctor, key: &[u8], iv: &[u8]) -> Result<Box<dyn BlockModeObj>, ApiErr>;
    fn alg_name(&self) -> Option<String>;
    /// parallel width the *mode backend* advertises (observed through a backend closure)
    fn mode_par(&self, key: &[u8], iv: &[u8]) -> usize;
}

// ---------------------------------------------------------------------------------------
// buffered CFB

pub trait BufCfbObj {
    fn as_any(&self) -> &dyn core::any::Any;
    /// `Clone::clone_from(self, src)` when `src` is the same concrete type and it is `Clone`
    fn assign_from(&mut self, src: &dyn core::any::Any) -> Option<()>;
    fn process(&mut self, data: &mut [u8]);
    fn get_state(&self) -> (Vec<u8>, usize);
    fn clone_box(&self) -> Option<Box<dyn BufCfbObj>>;
    fn debug(&self) -> Option<String>;
    fn drop_scan(self: Box<Self>, secrets: &[Vec<u8>]) -> ScanReport;
}

pub trait BufCfbFactory: Send + Sync {
    fn dir(&self) -> Direction;
    fn type_name(&self) -> String;
    fn make(&self, how: Ctor, key: &[u8], iv: &[u8]) -> Result<Box<dyn BufCfbObj>, ApiErr>;
    fn from_state(&self, key: &[u8], block: &[u8], pos: usize) -> Box<dyn BufCfbObj>;
    fn alg_name(&self) -> Option<String>;
}

// ---------------------------------------------------------------------------------------
// stream ciphers

#[derive(Clone, Copy, Debug, PartialEq, Eq, Hash)]
pub enum StreamKind {
    Ofb,
    /// counter width in bits, big-endian?
    Ctr(u32, bool),
    Belt,
}

impl StreamKind {
    /// counter width in bits (128 for BelT; `None` for OFB which has no counter)
    pub fn width(self) -> Option<u32> {
        match self {
            StreamKind::Ofb => None,
            StreamKind::Ctr(w, _) => Some(w),
            StreamKind::Belt => Some(128),
        }
    }
    pub fn seekable(self) -> bool {
        !matches!(self, StreamKind::Ofb)
    }
}

#[derive(Clone, Copy, Debug, PartialEq, Eq, Hash)]
pub enum NumTy {
    I32,
    U32,
    U64,
    U128,
    Usize,
}

impl NumTy {
    pub const ALL: [NumTy; 5] = [NumTy::U64, NumTy::U128, NumTy::U32, NumTy::Usize, NumTy::I32];
    pub fn max(self) -> u128 {
        match self {
            NumTy::I32 => i32::MAX as u128,
            NumTy::U32 => u32::MAX as u128,
            NumTy::U64 => u64::MAX as u128,
            NumTy::U128 => u128::MAX,
            NumTy::Usize => usize::MAX as u128,
        }
    }
}

#[derive(Clone, Copy, Debug, PartialEq, Eq, Hash)]
pub enum ApplyKind {
    /// `try_apply_keystream(&mut buf)`
    InPlace,
    /// `try_apply_keystream_inout(InOutBuf::new(in, out))`
    Inout,
    /// `apply_keystream_b2b(in, out)`
    B2b,
}

impl ApplyKind {
    pub const ALL: [ApplyKind; 3] = [ApplyKind::InPlace, ApplyKind::Inout, ApplyKind::B2b];
}

pub trait StreamObj {
    fn as_any(&self) -> &dyn core::any::Any;
    /// `Clone::clone_from(self, src)` when `src` is the same concrete type and it is `Clone`
    fn assign_from(&mut self, src: &dyn core::any::Any) -> Option<()>;
    /// `out` pre-filled by the caller; `InPlace` first copies `inp` over it. For `B2b` the
    /// lengths may differ.
    fn try_apply(&mut self, kind: ApplyKind, inp: &[u8], out: &mut [u8]) -> Result<(), ApiErr>;
    /// `None`: the type has no `StreamCipherSeek`. `pos` must fit `ty` (harness obligation).
    fn try_seek(&mut self, ty: NumTy, pos: u128) -> Option<Result<(), ApiErr>>;
    fn try_current_pos(&self, ty: NumTy) -> Option<Result<u128, ApiErr>>;
    /// `get_core().get_block_pos()`
    fn core_block_pos(&self) -> Option<u128>;
    /// `get_core().remaining_blocks()`
    fn core_remaining(&self) -> Option<usize>;
    /// `get_core().iv_state()`
    fn core_iv_state(&self) -> Option<Vec<u8>>;
    fn core_debug(&self) -> Option<String>;
    fn clone_box(&self) -> Option<Box<dyn StreamObj>>;
    fn debug(&self) -> Option<String>;
    fn drop_scan(self: Box<Self>, secrets: &[Vec<u8>]) -> ScanReport;
}

#[derive(Clone, Copy, Debug, PartialEq, Eq, Hash)]
pub enum CoreKind {
    /// loop of `apply_keystream_block_inout((in,out))`
    ApplyBlockInout,
    /// `apply_keystream_blocks(&mut [b])` in place
    ApplyBlocks,
    /// `apply_keystream_blocks_inout(InOutBuf::new(in,out))`
    ApplyBlocksInout,
    /// loop of `write_keystream_block` + XOR by the harness
    WriteBlock,
    /// `write_keystream_blocks` + XOR by the harness
    WriteBlocks,
    /// `process_with_backend(closure)` with a generated mixture of `gen_ks_block` /
    /// `gen_par_ks_blocks` / `gen_tail_blocks`
    Backend,
}

impl CoreKind {
    pub const ALL: [CoreKind; 6] = [
        CoreKind::ApplyBlockInout,
        CoreKind::ApplyBlocks,
        CoreKind::ApplyBlocksInout,
        CoreKind::WriteBlock,
        CoreKind::WriteBlocks,
        CoreKind::Backend,
    ];
}

pub trait StreamCoreObj {
    fn as_any(&self) -> &dyn core::any::Any;
    /// `Clone::clone_from(self, src)` when `src` is the same concrete type and it is `Clone`
    fn assign_from(&mut self, src: &dyn core::any::Any) -> Option<()>;
    fn remaining_blocks(&self) -> Option<usize>;
    /// whole blocks only, equal lengths
    fn process(&mut self, kind: CoreKind, inp: &[u8], out: &mut [u8], sched: &mut Sched);
    fn get_block_pos(&self) -> Option<u128>;
    /// `pos` must fit the counter type (harness obligation); `None` = not seekable
    fn set_block_pos(&mut self, pos: u128) -> Option<()>;
    fn iv_state(&self) -> Option<Vec<u8>>;
    fn clone_box(&self) -> Option<Box<dyn StreamCoreObj>>;
    fn debug(&self) -> Option<String>;
    /// `StreamCipherCoreWrapper::from_core(self)`
    fn into_wrapper(self: Box<Self>) -> Box<dyn StreamObj>;
    /// `try_apply_keystream_partial(self, InOutBuf::new(in,out))`, equal lengths
    fn try_apply_partial(self: Box<Self>, inp: &[u8], out: &mut [u8]) -> Result<(), ApiErr>;
    fn drop_scan(self: Box<Self>, secrets: &[Vec<u8>]) -> ScanReport;
}

pub trait StreamFactory: Send + Sync {
    fn kind(&self) -> StreamKind;
    fn type_name(&self) -> String;
    fn core_type_name(&self) -> String;
    fn make(&self, how: Ctor, key: &[u8], iv: &[u8]) -> Result<Box<dyn StreamObj>, ApiErr>;
    fn make_core(&self, how: Ctor, key: &[u8], iv: &[u8]) -> Result<Box<dyn StreamCoreObj>, ApiErr>;
    fn alg_name(&self) -> Option<String>;
    fn core_par(&self, key: &[u8], iv: &[u8]) -> usize;
}

// ---------------------------------------------------------------------------------------
// ciphertext stealing

#[derive(Clone, Copy, Debug, PartialEq, Eq, Hash)]
pub enum CtsVariant {
    CbcCs1,
    CbcCs2,
    CbcCs3,
    EcbCs1,
    EcbCs2,
    EcbCs3,
}

impl CtsVariant {
    pub const ALL: [CtsVariant; 6] = [
        CtsVariant::CbcCs1,
        CtsVariant::CbcCs2,
        CtsVariant::CbcCs3,
        CtsVariant::EcbCs1,
        CtsVariant::EcbCs2,
        CtsVariant::EcbCs3,
    ];
    pub fn is_cbc(self) -> bool {
        matches!(self, CtsVariant::CbcCs1 | CtsVariant::CbcCs2 | CtsVariant::CbcCs3)
    }
    pub fn cs(self) -> u8 {
        match self {
            CtsVariant::CbcCs1 | CtsVariant::EcbCs1 => 1,
            CtsVariant::CbcCs2 | CtsVariant::EcbCs2 => 2,
            CtsVariant::CbcCs3 | CtsVariant::EcbCs3 => 3,
        }
    }
}

pub trait CtsObj {
    /// `Form::InPlace` copies `inp` over `out` first; `B2b` / `Inout` may have unequal lengths
    /// (`Inout` with unequal lengths is a harness error).
    fn encrypt(self: Box<Self>, form: Form, inp: &[u8], out: &mut [u8]) -> Result<(), ApiErr>;
    fn decrypt(self: Box<Self>, form: Form, inp: &[u8], out: &mut [u8]) -> Result<(), ApiErr>;
    fn clone_box(&self) -> Option<Box<dyn CtsObj>>;
    fn debug(&self) -> Option<String>;
}

pub trait CtsFactory: Send + Sync {
    fn variant(&self) -> CtsVariant;
    fn type_name(&self) -> String;
    /// `iv` is ignored by the ECB variants
    fn make(&self, how: Ctor, key: &[u8], iv: &[u8]) -> Result<Box<dyn CtsObj>, ApiErr>;
}

// ---------------------------------------------------------------------------------------
// memory scan (C17 b)

#[derive(Clone, Debug, Default)]
pub struct ScanReport {
    pub size: usize,
    /// number of secret windows found before the drop
    pub before: usize,
    /// (secret index, offset in secret, offset in storage) of windows still present after
    pub after: Vec<(usize, usize, usize)>,
}

impl fmt::Display for ScanReport {
    fn fmt(&self, f: &mut fmt::Formatter<'_>) -> fmt::Result {
        write!(f, "size={} before={} after={:?}", self.size, self.before, self.after)
    }
}

// ---------------------------------------------------------------------------------------
// static description of a configuration (known without constructing it)

#[derive(Clone, Copy, Debug)]
pub struct SuiteMeta {
    pub name: &'static str,
    pub bs: usize,
    /// declared width of the toy ciphers; 0 for real ciphers (depends on the CPU)
    pub par: usize,
    pub key_len: usize,
    pub has_dec: bool,
    pub is_toy: bool,
    /// widest CTR counter instantiated (0, 32, 64, 128): all narrower flavours exist too
    pub ctr: u32,
    pub belt: bool,
    /// part of the reduced table
    pub small: bool,
}

impl SuiteMeta {
    pub fn has_stream(&self, k: StreamKind) -> bool {
        match k {
            StreamKind::Ofb => true,
            StreamKind::Ctr(w, _) => w <= self.ctr,
            StreamKind::Belt => self.belt,
        }
    }
    pub fn has_cts(&self) -> bool {
        self.has_dec
    }
}

// ---------------------------------------------------------------------------------------
// one cipher configuration with everything instantiated over it

pub struct Suite {
    pub info: CipherInfo,
    pub keyed: Box<dyn Fn(&[u8]) -> Box<dyn CipherObj> + Send + Sync>,
    pub block_modes: Vec<Box<dyn BlockModeFactory>>,
    pub buf_cfb: Vec<Box<dyn BufCfbFactory>>,
    pub streams: Vec<Box<dyn StreamFactory>>,
    pub cts: Vec<Box<dyn CtsFactory>>,
}

impl Suite {
    pub fn block_mode(&self, mode: Mode, dir: Direction) -> Option<&dyn BlockModeFactory> {
        self.block_modes
            .iter()
            .find(|f| f.mode() == mode && f.dir() == dir)
            .map(|b| b.as_ref())
    }
    pub fn stream(&self, kind: StreamKind) -> Option<&dyn StreamFactory> {
        self.streams.iter().find(|f| f.kind() == kind).map(|b| b.as_ref())
    }
    pub fn cts(&self, v: CtsVariant) -> Option<&dyn CtsFactory> {
        self.cts.iter().find(|f| f.variant() == v).map(|b| b.as_ref())
    }
    pub fn buf(&self, dir: Direction) -> Option<&dyn BufCfbFactory> {
        self.buf_cfb.iter().find(|f| f.dir() == dir).map(|b| b.as_ref())
    }
}
