#!/usr/bin/env bash
# Self-test: apply each patch to /repo, confirm it builds and the repository's own tests pass,
# run every quick check, report which properties raise a violation; always restores /repo.
# usage: ./run_mutants.sh [patch files...]   (default: mutants/*.patch and seeded/*/patch.diff)
set -u
cd "$(dirname "$0")"
PATCHES=("$@")
[ ${#PATCHES[@]} -gt 0 ] || PATCHES=(mutants/*.patch seeded/*/patch.diff)
git -C /repo diff --quiet || { echo "/repo has uncommitted changes; refusing"; exit 2; }
# evidence files are rewritten by every run: keep the ones of the unchanged tree
EVBAK="$(mktemp -d /tmp/vp-evidence-XXXXXX)"; cp -a evidence/. "$EVBAK"/ 2>/dev/null
trap 'git -C /repo checkout -- . >/dev/null 2>&1; git -C /repo clean -fdq >/dev/null 2>&1; rm -rf evidence; mkdir -p evidence; cp -a "$EVBAK"/. evidence/ 2>/dev/null; rm -rf "$EVBAK"' EXIT
for p in "${PATCHES[@]}"; do
  [ -f "$p" ] || continue
  name="$p"
  if ! git -C /repo apply "$(realpath "$p")" 2>/dev/null; then echo "$name: PATCH DOES NOT APPLY"; continue; fi
  if [ "${SKIP_REPO_TESTS:-0}" != 1 ]; then
    if ! (cd /repo && cargo test --workspace --offline -q >/tmp/vp-mut-test.log 2>&1); then
      tests="REPO-TESTS-FAIL"
    else tests="repo-tests-pass"; fi
  else tests="repo-tests-skipped"; fi
  flagged=()
  ./check C01 quick >/tmp/vp-mut-C01.log 2>&1; rc=$?
  if [ $rc -eq 2 ]; then echo "$name: $tests; HARNESS BUILD/INTERNAL FAILURE"; tail -n 5 /tmp/vp-mut-C01.log; git -C /repo checkout -- .; continue; fi
  [ $rc -eq 1 ] && flagged+=("C01")
  pids=()
  for i in 02 03 04 05 06 07 08 09 10 11 12 13 14 15 16 17; do
    ( ./check C$i quick >/tmp/vp-mut-C$i.log 2>&1; echo $? >/tmp/vp-mut-C$i.rc ) &
    pids+=($!)
  done
  wait "${pids[@]}"
  for i in 02 03 04 05 06 07 08 09 10 11 12 13 14 15 16 17; do
    rc=$(cat /tmp/vp-mut-C$i.rc)
    [ "$rc" = 1 ] && flagged+=("C$i")
    [ "$rc" = 2 ] && flagged+=("C$i:exit2")
  done
  if [ "${SAVE_TAPES:-0}" = 1 ]; then
    # keep the shrunk killing tape of every flagged property as a regression tape
    tag="$(echo "$name" | sed 's#/patch.diff##; s#.*/##; s#\.patch##')"
    for i in 01 02 03 04 05 06 07 08 09 10 11 12 13 14 15 16 17; do
      rp="$(grep -h '^VIOLATION property=' /tmp/vp-mut-C$i.log 2>/dev/null | head -1 | sed 's/.*replay=//')"
      if [ -n "$rp" ] && [ -f "$rp" ]; then
        mkdir -p corpus/C$i
        python3 -c "import json,sys; open(sys.argv[2],'wb').write(bytes.fromhex(json.load(open(sys.argv[1]))['tape']))" "$rp" "corpus/C$i/kills-$tag.bin"
      fi
    done
  fi
  echo "$name: $tests; flagged by: ${flagged[*]:-NONE}"
  git -C /repo checkout -- .; git -C /repo clean -fdq
done
rm -f /tmp/vp-mut-*.log /tmp/vp-mut-*.rc
